import Zrnt.Beacon.Impl.Epoch
import Proofs.Lemmas.C02Registry
import Proofs.Lemmas.C02Just
import Proofs.Lemmas.C02Altair
import Proofs.Lemmas.C02Phase0
import Proofs.Lemmas.C02WF
import Zrnt.Beacon.Impl.Pipeline
import Proofs.Lemmas.C02Slots
import Proofs.Lemmas.C02Inv
import Proofs.Lemmas.C02Link
import Proofs.Lemmas.C02Link2
import Proofs.Lemmas.C02Genesis
import Zrnt.Beacon.Impl.Final
import Proofs.Lemmas.C02Committee
/-!
# C02 — slot, epoch and fork-upgrade processing equals the consensus spec

`S` = `Zrnt.Beacon.Spec` (the specification layer, written from the consensus specs, the oracle of the
correspondence run), `M` = `Zrnt.Beacon.Impl` (the shape of the Go code where it differs from the spec).
The theorems say `M = S` for **all** inputs (no size bound) on the `Nat` level; both are tied to the
real code by the `c02` correspondence (`Go = M` and `Go = S` on every generated state).
-/
namespace Zrnt.Proofs.C02
open Zrnt.Beacon Zrnt.Beacon.Spec

/-! ## Effective-balance hysteresis -/

/-- One validator: the Go loop body (write only when outside the band, clamp with `if`) gives the
spec's new effective balance. -/
theorem effectiveBalance_step_eq (cfg : Config) (balance eff : Nat) :
    (match Impl.effectiveBalanceStep cfg balance eff with
     | some e => e
     | none => eff) = effective_balance_update cfg balance eff := by
  unfold Impl.effectiveBalanceStep effective_balance_update
  simp only []
  split <;> rename_i h
  · split at h <;> rename_i hc
    · injection h with h; subst h
      have : (decide (balance + cfg.EFFECTIVE_BALANCE_INCREMENT / cfg.HYSTERESIS_QUOTIENT * cfg.HYSTERESIS_DOWNWARD_MULTIPLIER < eff) ||
          decide (eff + cfg.EFFECTIVE_BALANCE_INCREMENT / cfg.HYSTERESIS_QUOTIENT * cfg.HYSTERESIS_UPWARD_MULTIPLIER < balance)) = true := by
        simpa using hc
      rw [if_pos this]
      split <;> omega
    · cases h
  · split at h <;> rename_i hc
    · cases h
    · have : ¬ ((decide (balance + cfg.EFFECTIVE_BALANCE_INCREMENT / cfg.HYSTERESIS_QUOTIENT * cfg.HYSTERESIS_DOWNWARD_MULTIPLIER < eff) ||
          decide (eff + cfg.EFFECTIVE_BALANCE_INCREMENT / cfg.HYSTERESIS_QUOTIENT * cfg.HYSTERESIS_UPWARD_MULTIPLIER < balance)) = true) := by
        simpa using hc
      rw [if_neg this]

/-- `effectiveBalance_eq`: `phase0.ProcessEffectiveBalanceUpdates`, reading effective balances from the
snapshot `flats` and balances from the state, equals `process_effective_balance_updates`, provided the
snapshot still has the state's effective balances (no earlier sub-step writes them) and every validator
has a balance. -/
theorem effectiveBalance_eq (cfg : Config) (flats vals : List Validator) (balances : List Nat)
    (hsnap : flats.map (·.effective_balance) = vals.map (·.effective_balance))
    (hlen : vals.length ≤ balances.length) :
    Impl.processEffectiveBalanceUpdates cfg flats vals balances =
      process_effective_balance_updates_pure cfg vals balances := by
  induction vals generalizing flats balances with
  | nil =>
    cases flats <;> cases balances <;> simp [Impl.processEffectiveBalanceUpdates, process_effective_balance_updates_pure]
  | cons v vs ih =>
    cases flats with
    | nil => simp at hsnap
    | cons f fs =>
      cases balances with
      | nil => simp at hlen
      | cons b bs =>
        simp only [List.map_cons, List.cons.injEq] at hsnap
        simp only [List.length_cons, Nat.add_le_add_iff_right] at hlen
        have := ih fs bs hsnap.2 hlen
        simp only [Impl.processEffectiveBalanceUpdates, process_effective_balance_updates_pure, List.zip_cons_cons,
          List.map_cons, List.cons.injEq] at this ⊢
        refine ⟨?_, this⟩
        rw [hsnap.1, ← effectiveBalance_step_eq]
        split <;> simp_all

/-- non-vacuity of the hypotheses -/
example : ∃ (flats vals : List Validator) (balances : List Nat), vals ≠ [] ∧
    flats.map (·.effective_balance) = vals.map (·.effective_balance) ∧ vals.length ≤ balances.length :=
  ⟨[default], [default], [0], by simp, rfl, by simp⟩

/-! ## Slashings -/

/-- the loop of `phase0.ProcessEpochSlashings` against the spec's per-validator formula -/
theorem slashings_loop_eq (cfg : Config) (fork : Fork) (epoch total : Nat) (slashings : List Nat)
    (flats : List Validator) (balances : List Nat) (hlen : flats.length ≤ balances.length) :
    Impl.processEpochSlashingsLoop cfg (epoch + cfg.EPOCHS_PER_SLASHINGS_VECTOR / 2)
        (if total < slashings.sum * proportional_slashing_multiplier cfg fork then total
         else slashings.sum * proportional_slashing_multiplier cfg fork) total flats balances =
      process_slashings_pure cfg fork epoch total slashings flats balances ++ balances.drop flats.length := by
  induction flats generalizing balances with
  | nil => cases balances <;> simp [Impl.processEpochSlashingsLoop, process_slashings_pure]
  | cons f fs ih =>
    cases balances with
    | nil => simp at hlen
    | cons b bs =>
      simp only [List.length_cons, Nat.add_le_add_iff_right] at hlen
      have := ih bs hlen
      simp only [Impl.processEpochSlashingsLoop, process_slashings_pure, List.zip_cons_cons, List.map_cons,
        List.cons_append, List.cons.injEq, List.length_cons, List.drop_succ_cons] at this ⊢
      refine ⟨?_, this⟩
      have hmin : min (slashings.sum * proportional_slashing_multiplier cfg fork) total =
          (if total < slashings.sum * proportional_slashing_multiplier cfg fork then total
           else slashings.sum * proportional_slashing_multiplier cfg fork) := by
        split <;> omega
      rw [hmin]
      generalize (if total < slashings.sum * proportional_slashing_multiplier cfg fork then total
           else slashings.sum * proportional_slashing_multiplier cfg fork) = adj
      have hP : f.effective_balance / cfg.EFFECTIVE_BALANCE_INCREMENT * adj / total * cfg.EFFECTIVE_BALANCE_INCREMENT =
          slashing_penalty cfg f.effective_balance adj total := rfl
      simp only [Impl.decreaseBalance, beq_iff_eq, Bool.and_eq_true, decide_eq_true_eq, hP]
      generalize slashing_penalty cfg f.effective_balance adj total = P
      by_cases h1 : f.slashed = true ∧ epoch + cfg.EPOCHS_PER_SLASHINGS_VECTOR / 2 = f.withdrawable_epoch
      · rw [if_pos h1, if_pos h1]
        by_cases hb : b ≥ P
        · rw [if_pos hb, if_neg (by omega)]
        · rw [if_neg hb, if_pos (by omega)]
      · rw [if_neg h1, if_neg h1]

/-- `slashings_eq`: `phase0.ProcessEpochSlashings` (total active stake summed from the snapshot, `if`
for the minimum, penalty per slashed validator at the halfway mark, per-fork multiplier) equals
`process_slashings` with the same total, for all registries, balances and slashings vectors. -/
theorem slashings_eq (cfg : Config) (fork : Fork) (epoch : Nat) (slashings : List Nat)
    (flats : List Validator) (balances : List Nat) (hlen : flats.length ≤ balances.length) :
    Impl.processEpochSlashings cfg fork epoch flats slashings balances =
      process_slashings_pure cfg fork epoch (Impl.totalActiveStake cfg flats epoch) slashings flats balances
        ++ balances.drop flats.length := by
  unfold Impl.processEpochSlashings
  exact slashings_loop_eq cfg fork epoch _ slashings flats balances hlen

/-- the total of the snapshot is the spec's `max(EFFECTIVE_BALANCE_INCREMENT, sum of active effective balances)` -/
theorem totalActiveStake_eq (cfg : Config) (flats : List Validator) (epoch : Nat) :
    Impl.totalActiveStake cfg flats epoch =
      max cfg.EFFECTIVE_BALANCE_INCREMENT
        ((flats.filter (is_active_validator · epoch)).map (·.effective_balance)).sum := by
  unfold Impl.totalActiveStake
  simp only []
  split <;> omega

/-- per-fork multiplier: the three forks' constants are distinct fields, chosen as the spec says -/
theorem slashing_multiplier_per_fork (cfg : Config) :
    proportional_slashing_multiplier cfg .phase0 = cfg.PROPORTIONAL_SLASHING_MULTIPLIER ∧
    proportional_slashing_multiplier cfg .altair = cfg.PROPORTIONAL_SLASHING_MULTIPLIER_ALTAIR ∧
    proportional_slashing_multiplier cfg .bellatrix = cfg.PROPORTIONAL_SLASHING_MULTIPLIER_BELLATRIX ∧
    proportional_slashing_multiplier cfg .capella = cfg.PROPORTIONAL_SLASHING_MULTIPLIER_BELLATRIX ∧
    proportional_slashing_multiplier cfg .deneb = cfg.PROPORTIONAL_SLASHING_MULTIPLIER_BELLATRIX :=
  ⟨rfl, rfl, rfl, rfl, rfl⟩

/-! ## Justification and finalization -/

/-- `justification_eq`: `phase0.ProcessEpochJustification` — the bits as one byte (`<<1 & 0x0f`, `|= 1<<k`,
`IsJustified` masks), a pointer for the new justified checkpoint and one for the checkpoint to finalize —
equals `weigh_justification_and_finalization` on the bitvector, for every 4-bit pattern, all epochs,
all balances and all checkpoints (case split over the 16 patterns and the two supermajority tests). -/
theorem justification_eq (previousEpoch currentEpoch : Nat) (f : FFG) (total prevT curT : Nat)
    (prevRoot curRoot : Bytes) (hbits : f.justification_bits.length = 4) :
    Impl.processEpochJustification previousEpoch currentEpoch f total prevT curT prevRoot curRoot =
      weigh_justification_and_finalization_pure previousEpoch currentEpoch f total prevT curT prevRoot curRoot :=
  Lemmas.justification_eq' previousEpoch currentEpoch f total prevT curT prevRoot curRoot hbits

/-- non-vacuity: the state's `Bitvector[4]` -/
example : ∃ f : FFG, f.justification_bits.length = 4 := ⟨⟨[true, false, true, false], default, default, default⟩, rfl⟩

/-! ## Registry updates: the batched exit queue -/

/-- `registry_batched_eq_sequential`: the ejections of `phase0.ProcessEpochRegistryUpdates` — ONE scan over the exit
epochs in `ComputeRegistryProcessData` (queue end, churn used in the last epoch; a later epoch restarts the
count), then `exitEnd`/`endChurn` stepping over the validators to eject — assign the same
`(exit_epoch, withdrawable_epoch)` to the same validators as the spec's loop, which calls
`initiate_validator_exit` one by one and recomputes the queue from the whole registry each time.
For every configuration, epoch and registry (no size bound); `EpochsSmall`: all epochs in play are far below
`FAR_FUTURE_EPOCH` (otherwise an assigned exit epoch could collide with the "no exit" marker). -/
theorem registry_batched_eq_sequential (cfg : Config) (cur : Nat) (vals : List Validator)
    (hsmall : Lemmas.EpochsSmall cfg cur vals) :
    Impl.processEjections cfg (Impl.computeRegistryProcessData cfg vals cur).churnLimit
        (Impl.computeRegistryProcessData cfg vals cur).exitQueueEnd
        (Impl.computeRegistryProcessData cfg vals cur).exitQueueEndChurn
        (Impl.computeRegistryProcessData cfg vals cur).indicesToEject vals =
      (Impl.computeRegistryProcessData cfg vals cur).indicesToEject.foldl (initiate_validator_exit_pure cfg cur) vals :=
  Lemmas.ejections_batched_eq_sequential cfg cur vals hsmall

/-- `registry_first_loop_eq`: the whole first loop of the spec's `process_registry_updates` — validator by validator:
mark eligible for the activation queue, then eject through `initiate_validator_exit` — equals what
`ProcessEpochRegistryUpdates` does with the snapshot: batched ejections first, then all eligibility marks.
(Uses `registry_batched_eq_sequential` and the fact that `initiate_validator_exit` neither reads nor writes
`activation_eligibility_epoch`.) -/
theorem registry_first_loop_eq (cfg : Config) (cur : Nat) (vals : List Validator)
    (hsmall : Lemmas.EpochsSmall cfg cur vals) :
    Impl.setEligibility (cur + 1) (Impl.computeRegistryProcessData cfg vals cur).indicesToSetActivationEligibility
        (Impl.processEjections cfg (Impl.computeRegistryProcessData cfg vals cur).churnLimit
          (Impl.computeRegistryProcessData cfg vals cur).exitQueueEnd
          (Impl.computeRegistryProcessData cfg vals cur).exitQueueEndChurn
          (Impl.computeRegistryProcessData cfg vals cur).indicesToEject vals) =
      registry_eligibility_and_ejections_pure cfg cur vals := by
  rw [registry_batched_eq_sequential cfg cur vals hsmall]
  exact (Lemmas.first_loop_eq cfg cur vals).symm

/-- non-vacuity of `EpochsSmall` -/
example : Lemmas.EpochsSmall default 10 [default, { (default : Validator) with exit_epoch := 17 }] := by
  refine ⟨by decide, ?_⟩
  intro v hv hne
  simp only [List.mem_cons, List.not_mem_nil, or_false] at hv
  rcases hv with rfl | rfl <;> decide

/-- Lead #13 (confirmed on the unchanged tree, repaired by /repo commit 6d1e229): the scan as it was —
the churn count is NOT restarted when a later exit epoch is found — reports queue end 7 with churn 4 for
the exit epochs [5,5,5,7] (start epoch 5), the repaired scan and the spec's count report churn 1. With a
churn limit of 4 the old code therefore moved the next ejection to epoch 8 where `initiate_validator_exit`
assigns epoch 7: `registry_batched_eq_sequential` was false for the code as found. -/
theorem registry_scan_unfixed_witness :
    Impl.exitQueueScanUnfixed 5 [5, 5, 5, 7] = (7, 4) ∧ Impl.exitQueueScan 5 [5, 5, 5, 7] = (7, 1) := by
  decide

/-! ## Registry updates: the activation queue -/

/-- `activation_prefix_eq`: zrnt sorts the candidates whose eligibility epoch is `≤ current` by
`(activation_eligibility_epoch, index)`, takes `limit` (the churn limit, from deneb the activation churn
limit) and stops at the first one above the finalized epoch; the spec filters by `≤ finalized`, sorts and
takes `limit`. The dequeued index lists are equal whenever `finalized.epoch ≤ current` (all registries,
all limits). -/
theorem activation_prefix_eq (cfg : Config) (vals : List Validator) (cur fin limit : Nat) (hfin : fin ≤ cur) :
    (((Impl.computeRegistryProcessData cfg vals cur).indicesToMaybeActivate.take limit).takeWhile
        fun index => decide ((vals.getD index default).activation_eligibility_epoch ≤ fin)) =
      (activation_queue_pure fin vals).take limit :=
  Lemmas.activation_prefix vals cur fin limit hfin

/-- … hence the activations written by `ProcessEpochRegistryUpdates` are those of the spec's second loop. -/
theorem activations_eq (cfg : Config) (vals w : List Validator) (cur fin limit : Nat) (hfin : fin ≤ cur) :
    Impl.processActivations cfg cur fin limit vals (Impl.computeRegistryProcessData cfg vals cur).indicesToMaybeActivate w =
      ((activation_queue_pure fin vals).take limit).foldl (fun w index =>
        match w[index]? with
        | none => w
        | some validator => w.set index { validator with activation_epoch := compute_activation_exit_epoch cfg cur }) w := by
  unfold Impl.processActivations
  simp only []
  rw [activation_prefix_eq cfg vals cur fin limit hfin]
  congr 1
  funext w index
  cases w[index]? <;> rfl

/-- `registry_updates_eq`: the whole of `phase0.ProcessEpochRegistryUpdates` / `deneb.ProcessEpochRegistryUpdates`
(snapshot scan, batched ejections, eligibility marks, sorted-prefix activations with the fork's limit) equals the
whole of the spec's `process_registry_updates` (first loop with sequential `initiate_validator_exit`, then the
activation queue computed from the UPDATED registry, with the churn limit recomputed from the updated registry),
for every configuration, epoch, finalized epoch `≤ current` and registry with small epochs. -/
theorem registry_updates_eq (cfg : Config) (deneb : Bool) (cur fin : Nat) (vals : List Validator)
    (hsmall : Lemmas.EpochsSmall cfg cur vals) (hfin : fin ≤ cur) :
    Impl.processEpochRegistryUpdates cfg deneb cur fin vals vals =
      registry_activations_pure cfg cur fin
        (if deneb then min cfg.MAX_PER_EPOCH_ACTIVATION_CHURN_LIMIT
            (churn_limit_of cfg (registry_eligibility_and_ejections_pure cfg cur vals) cur)
         else churn_limit_of cfg (registry_eligibility_and_ejections_pure cfg cur vals) cur)
        (registry_eligibility_and_ejections_pure cfg cur vals) := by
  unfold Impl.processEpochRegistryUpdates
  simp only []
  rw [registry_first_loop_eq cfg cur vals hsmall, activations_eq cfg vals _ cur fin _ hfin,
    Lemmas.churn_limit_first_loop]
  have hcur : cur < FAR_FUTURE_EPOCH := by
    have := hsmall.1; unfold compute_activation_exit_epoch at this; omega
  unfold registry_activations_pure
  rw [Lemmas.activation_queue_first_loop cur fin vals _ (Lemmas.queueView_first_loop cfg cur vals) hfin hcur]
  rfl

/-- non-vacuity: a finalized epoch not after the current one -/
example : ∃ fin cur : Nat, fin ≤ cur := ⟨3, 5, by decide⟩

/-- deneb: the activation limit is `min(MAX_PER_EPOCH_ACTIVATION_CHURN_LIMIT, churn limit)` in both -/
theorem deneb_activation_limit_eq (cfg : Config) (vals : List Validator) (cur : Nat) :
    min cfg.MAX_PER_EPOCH_ACTIVATION_CHURN_LIMIT (Impl.computeRegistryProcessData cfg vals cur).churnLimit =
      min cfg.MAX_PER_EPOCH_ACTIVATION_CHURN_LIMIT (churn_limit_of cfg vals cur) := rfl

/-! ## The `FlatValidator` snapshot -/

/-- `flat_snapshot_sound` (effective balances): `process_registry_updates` — both of its loops, for every
registry — leaves every validator's `effective_balance` (and `slashed`) untouched, so the snapshot taken at the
start of `ProcessEpoch` still holds the values `ProcessEffectiveBalanceUpdates` should read … -/
theorem flat_snapshot_sound (cfg : Config) (cur fin limit : Nat) (vals : List Validator) :
    (registry_activations_pure cfg cur fin limit (registry_eligibility_and_ejections_pure cfg cur vals)).map
        (fun v => (v.effective_balance, v.slashed)) = vals.map (fun v => (v.effective_balance, v.slashed)) := by
  rw [Lemmas.registry_activations_map_same _ cfg cur fin limit _ (fun _ _ => rfl)]
  exact Lemmas.registry_first_loop_map_same _ cfg cur vals (fun _ _ _ => rfl) (fun _ _ => rfl)

/-- … and therefore the hysteresis update that reads the START-of-epoch snapshot equals the spec's update of the
registry as it is AFTER the registry update (whatever the balances are by then). -/
theorem effectiveBalance_snapshot_eq (cfg : Config) (cur fin limit : Nat) (vals : List Validator) (balances : List Nat)
    (hlen : vals.length ≤ balances.length) :
    Impl.processEffectiveBalanceUpdates cfg vals
        (registry_activations_pure cfg cur fin limit (registry_eligibility_and_ejections_pure cfg cur vals)) balances =
      process_effective_balance_updates_pure cfg
        (registry_activations_pure cfg cur fin limit (registry_eligibility_and_ejections_pure cfg cur vals)) balances := by
  have h := flat_snapshot_sound cfg cur fin limit vals
  have h1 : (registry_activations_pure cfg cur fin limit (registry_eligibility_and_ejections_pure cfg cur vals)).map
      (·.effective_balance) = vals.map (·.effective_balance) := by
    have := congrArg (List.map Prod.fst) h
    simpa [List.map_map, Function.comp_def] using this
  apply effectiveBalance_eq cfg vals _ balances h1.symm
  have := congrArg List.length h1
  simp only [List.length_map] at this
  omega

/-! ## Altair … deneb: attester data, flag deltas, inactivity, rewards -/

/-- `flagDeltas_altair_eq`: `altair.ComputeFlagDeltas` — stake loop over the previous epoch's active indices with the
flag as a bit mask, membership test `!slashed && participation&flag != 0` on the eligible indices — equals
`get_flag_index_deltas` (membership in `get_unslashed_participating_indices`, which also asks for activity in the
previous epoch: for an eligible, unslashed validator that is implied), for each of the three flags. -/
theorem flagDeltas_altair_eq (cfg : Config) (vals : List Validator) (participation : List Nat) (prev total : Nat)
    (leak : Bool) (k : Nat) (hk : k < 3) :
    Impl.computeFlagDeltas cfg vals participation (active_indices_of vals prev) (eligible_indices_of vals prev)
        total (integer_squareroot total) (Impl.flagMask k) (PARTICIPATION_FLAG_WEIGHTS.getD k 0) leak =
      get_flag_index_deltas_pure cfg vals participation prev total leak k :=
  Lemmas.flagDeltas_altair cfg vals participation prev total leak k hk

/-- non-vacuity: the three participation flags -/
example : (0 : Nat) < 3 ∧ (1 : Nat) < 3 ∧ (2 : Nat) < 3 := by decide

/-- `inactivity_eq` (penalties): `altair.ComputeInactivityPenaltyDeltas` = `get_inactivity_penalty_deltas`,
with the fork's quotient (`INACTIVITY_PENALTY_QUOTIENT_ALTAIR` / `_BELLATRIX`) as a parameter of both. -/
theorem inactivityPenalty_eq (cfg : Config) (vals : List Validator) (participation scores : List Nat) (prev quotient : Nat) :
    Impl.computeInactivityPenaltyDeltas cfg vals participation scores (eligible_indices_of vals prev) quotient =
      get_inactivity_penalty_deltas_pure cfg vals participation scores prev quotient :=
  Lemmas.inactivityPenaltyDeltas_altair cfg vals participation scores prev quotient

/-- `inactivity_eq` (scores): `altair.ProcessInactivityUpdates` (decrement by one with a `> 0` test, recovery with a
`<` test, write back only when changed) = `process_inactivity_updates` (`min` formulation, unconditional write). -/
theorem inactivity_eq (cfg : Config) (vals : List Validator) (participation scores : List Nat) (prev : Nat) (leak : Bool) :
    Impl.processInactivityUpdates cfg vals participation (eligible_indices_of vals prev) leak scores =
      process_inactivity_updates_pure cfg vals participation scores prev leak :=
  Lemmas.inactivityUpdates_altair cfg vals participation scores prev leak

/-- `rewards_altair_eq`: `altair.ProcessEpochRewardsAndPenalties` — the three flag deltas and the inactivity deltas,
applied by four `common.ApplyDeltas` passes (each a map over the balances, clipped at zero) — equals the spec's
`process_rewards_and_penalties` (for each delta pair, the `increase_balance`/`decrease_balance` loop). -/
theorem rewards_altair_eq (cfg : Config) (vals : List Validator) (participation scores balances : List Nat)
    (prev cur quotient : Nat) (leak : Bool) (hlen : balances.length = vals.length) :
    Impl.processEpochRewardsAndPenaltiesAltair cfg vals participation scores (active_indices_of vals prev)
        (eligible_indices_of vals prev) (total_active_balance_of cfg vals cur)
        (integer_squareroot (total_active_balance_of cfg vals cur)) quotient leak balances =
      process_rewards_and_penalties_altair_pure cfg vals participation scores balances prev cur quotient leak :=
  Lemmas.rewards_altair cfg vals participation scores balances prev cur quotient leak hlen

/-- non-vacuity -/
example : ∃ (vals : List Validator) (balances : List Nat), vals ≠ [] ∧ balances.length = vals.length :=
  ⟨[default], [7], by simp, rfl⟩

/-- `currentTargetStake_eq` (lead #14, repaired by /repo commit 2e74fa1): the unslashed target stakes that
`altair.ComputeEpochAttesterData` hands to the justification step — the previous epoch's summed over the previous
epoch's active indices, the CURRENT epoch's over the CURRENT epoch's active indices — are the balances of
`get_unslashed_participating_indices(state, TIMELY_TARGET_FLAG_INDEX, previous/current epoch)`; and its eligible
indices are `get_eligible_validator_indices`. -/
theorem currentTargetStake_eq (cfg : Config) (vals : List Validator) (prevPart currPart : List Nat) (prev cur : Nat) :
    ((Impl.computeEpochAttesterDataAltair cfg vals prevPart currPart prev (active_indices_of vals prev)
        (active_indices_of vals cur)).prevTargetStake,
     (Impl.computeEpochAttesterDataAltair cfg vals prevPart currPart prev (active_indices_of vals prev)
        (active_indices_of vals cur)).currTargetStake) = target_balances_altair_pure cfg vals prevPart currPart prev cur ∧
    (Impl.computeEpochAttesterDataAltair cfg vals prevPart currPart prev (active_indices_of vals prev)
        (active_indices_of vals cur)).eligibleIndices = eligible_indices_of vals prev :=
  Lemmas.targetStakes_altair cfg vals prevPart currPart prev cur

/-! ## Final updates: resets, historical accumulators, participation rotation -/

/-- `resets_eq`: the three resets as the Go code does them — from `epc.NextEpoch.Epoch`, the randao mix read through
`Epoch.Previous()` — equal `process_eth1_data_reset`, `process_slashings_reset`, `process_randao_mixes_reset`. -/
theorem resets_eq (cfg : Config) (cur : Nat) (votes : List Eth1Data) (slashings : List Nat) (mixes : List Bytes) :
    Impl.processEth1DataReset cfg (cur + 1) votes = process_eth1_data_reset_pure cfg cur votes ∧
    Impl.processSlashingsReset cfg (cur + 1) slashings = process_slashings_reset_pure cfg cur slashings ∧
    Impl.processRandaoMixesReset cfg (cur + 1) mixes = process_randao_mixes_reset_pure cfg cur mixes := by
  refine ⟨?_, rfl, ?_⟩
  · unfold Impl.processEth1DataReset process_eth1_data_reset_pure
    simp
  · unfold Impl.processRandaoMixesReset process_randao_mixes_reset_pure Impl.epochPrevious
    simp only [Nat.add_eq_zero_iff, Nat.succ_ne_self, and_false, ↓reduceIte, Nat.add_sub_cancel]
    cases mixes[cur % cfg.EPOCHS_PER_HISTORICAL_VECTOR]? <;> rfl

/-- `historical_eq`: `common.UpdateHistoricalRoots` (hash of the two vector roots, "emulating HistoricalBatch") and
`capella.UpdateHistoricalSummaries`, triggered by `nextEpoch % SlotToEpoch(SLOTS_PER_HISTORICAL_ROOT) == 0`, equal
`process_historical_roots_update` (`hash_tree_root(HistoricalBatch)`) and `process_historical_summaries_update`. The
period is the spec's literal `SLOTS_PER_HISTORICAL_ROOT // SLOTS_PER_EPOCH` (floor division, `historical_batch_due`):
no divisibility of the two constants is assumed. -/
theorem historical_eq (cfg : Config) (cur : Nat) (block_roots state_roots historical_roots : List Bytes)
    (summaries : List HistoricalSummary) :
    Impl.processHistoricalRootsUpdate cfg (cur + 1) block_roots state_roots historical_roots =
      process_historical_roots_update_pure cfg cur block_roots state_roots historical_roots ∧
    Impl.processHistoricalSummariesUpdate cfg (cur + 1) block_roots state_roots summaries =
      process_historical_summaries_update_pure cfg cur block_roots state_roots summaries := by
  constructor
  · unfold Impl.processHistoricalRootsUpdate process_historical_roots_update_pure historical_batch_due Impl.slotToEpoch
      hash_tree_root_historical_batch
    simp
  · unfold Impl.processHistoricalSummariesUpdate process_historical_summaries_update_pure historical_batch_due Impl.slotToEpoch
    simp

/-- `participation_rotation_eq`: altair zero-fills the current participation to ITS OWN length, the spec to the
registry's length — equal when the participation list has one entry per validator; phase0 rotates the pending
attestations. -/
theorem participation_rotation_eq (n : Nat) (current_participation : List Nat) (current_attestations : List PendingAttestation)
    (hlen : current_participation.length = n) :
    Impl.processParticipationFlagUpdates current_participation =
      process_participation_flag_updates_pure n current_participation ∧
    Impl.processParticipationRecordUpdates current_attestations =
      process_participation_record_updates_pure current_attestations := by
  subst hlen
  exact ⟨rfl, rfl⟩

/-- non-vacuity -/
example : ∃ (n : Nat) (p : List Nat), p ≠ [] ∧ p.length = n := ⟨2, [0, 7], by simp, rfl⟩

/-! ## Sync-committee rotation -/

/-- `syncCommittee_rotation_eq`: `common.ComputeSyncCommitteeIndices` (the hash of the random-byte source cached and
refreshed every 32 candidates) selects what `get_next_sync_committee_indices` selects (hash recomputed for every
candidate), for every fuel (so also: one terminates iff the other does), and `ProcessSyncCommitteeUpdates` rotates
at the same epochs. Both sides are given the same list of candidates `active`: in `ProcessEpoch` zrnt passes
`epc.NextEpoch.ActiveIndices`, computed from the registry at the START of the epoch transition, the spec reads the
registry as updated by `process_registry_updates`; the two lists agree when `MAX_SEED_LOOKAHEAD ≥ 1` (not proved
here; for `MAX_SEED_LOOKAHEAD = 0` they differ and the correspondence reports the known finding). -/
theorem syncCommittee_rotation_eq (cfg : Config) (vals : List Validator) (active : List Nat) (seed : Bytes)
    (shuffled : Nat → Nat) (fuel cur : Nat) (current next computed : Option SyncCommittee) :
    Impl.computeSyncCommitteeIndices cfg vals active seed shuffled fuel =
      sync_committee_indices_loop cfg vals active seed shuffled fuel 0 [] ∧
    Impl.processSyncCommitteeUpdates cfg (cur + 1) current next computed =
      process_sync_committee_updates_pure cfg cur current next computed := by
  constructor
  · exact Lemmas.syncLoop_eq cfg vals active seed shuffled fuel 0 ZERO32 [] (fun h => absurd rfl h)
  · unfold Impl.processSyncCommitteeUpdates process_sync_committee_updates_pure
    simp

/-! ## Phase0: attester statuses and attestation rewards -/

/-- `rewards_phase0_eq`: zrnt's phase0 rewards — `ComputeEpochAttesterData` (one `AttesterStatus` per validator: flag
bits set and the earliest inclusion remembered while walking the pending attestations and their participants; three
nested stake sums), `AttestationRewardsAndPenalties` (ONE pass over the validators producing the source, target,
head, inclusion-delay and inactivity deltas from the statuses), the sum of the five deltas and one `ApplyDeltas` —
equals the spec's `process_rewards_and_penalties`: `get_attestation_deltas` built from `get_source_deltas`,
`get_target_deltas`, `get_head_deltas` (each over `get_unslashed_attesting_indices` of the matching attestations),
`get_inclusion_delay_deltas` (per attester the `min` over its attestations by inclusion delay) and
`get_inactivity_penalty_deltas`, applied validator by validator. For every registry, every list of resolved
pending attestations (previous and current epoch), every finality delay, configuration and balance list. -/
theorem rewards_phase0_eq (cfg : Config) (flats : List Validator) (prevEpoch curEpoch : Nat)
    (prevAtts currAtts : List ResolvedAtt) (finalityDelay : Nat) (balances : List Nat)
    (hlen : balances.length = flats.length) :
    Impl.processEpochRewardsAndPenaltiesPhase0 cfg flats
        (Impl.computeEpochAttesterDataPhase0 cfg flats prevEpoch prevAtts currAtts)
        (total_active_balance_of cfg flats curEpoch) finalityDelay cfg.INACTIVITY_PENALTY_QUOTIENT balances =
      process_rewards_and_penalties_phase0_pure cfg flats balances prevEpoch curEpoch finalityDelay
        (decide (finalityDelay > cfg.MIN_EPOCHS_TO_INACTIVITY_PENALTY)) prevAtts :=
  Lemmas.rewards_phase0 cfg flats prevEpoch curEpoch prevAtts currAtts finalityDelay balances hlen

/-- the five deltas separately (what `rewards_phase0_eq` is assembled from) -/
theorem attestationDeltas_phase0_eq (cfg : Config) (flats : List Validator) (prevEpoch : Nat)
    (prevAtts currAtts : List ResolvedAtt) (total finalityDelay : Nat) (r : Impl.RewardsAndPenalties)
    (hr : r = Impl.attestationRewardsAndPenalties cfg flats
      (Impl.computeEpochAttesterDataPhase0 cfg flats prevEpoch prevAtts currAtts) total finalityDelay cfg.INACTIVITY_PENALTY_QUOTIENT) :
    r.source = get_attestation_component_deltas_pure cfg flats prevEpoch total
      (decide (finalityDelay > cfg.MIN_EPOCHS_TO_INACTIVITY_PENALTY)) prevAtts ∧
    r.target = get_attestation_component_deltas_pure cfg flats prevEpoch total
      (decide (finalityDelay > cfg.MIN_EPOCHS_TO_INACTIVITY_PENALTY)) (matching_target_atts prevAtts) ∧
    r.head = get_attestation_component_deltas_pure cfg flats prevEpoch total
      (decide (finalityDelay > cfg.MIN_EPOCHS_TO_INACTIVITY_PENALTY)) (matching_head_atts prevAtts) ∧
    r.inclusionDelay = (get_inclusion_delay_deltas_pure cfg flats total prevAtts, zeros flats.length) ∧
    r.inactivity = (zeros flats.length, get_inactivity_penalty_deltas_phase0_pure cfg flats prevEpoch total finalityDelay
      (decide (finalityDelay > cfg.MIN_EPOCHS_TO_INACTIVITY_PENALTY)) prevAtts) :=
  Lemmas.attestationRewards_eq' cfg flats prevEpoch prevAtts currAtts total finalityDelay r hr

/-- `currentTargetStake_eq` for phase0: the target stakes handed to the justification step -/
theorem targetStakes_phase0_eq (cfg : Config) (flats : List Validator) (prevEpoch : Nat) (prevAtts currAtts : List ResolvedAtt) :
    ((Impl.computeEpochAttesterDataPhase0 cfg flats prevEpoch prevAtts currAtts).prevTargetStake,
     (Impl.computeEpochAttesterDataPhase0 cfg flats prevEpoch prevAtts currAtts).currTargetStake) =
      target_balances_phase0_pure cfg flats prevAtts currAtts :=
  Lemmas.targetStakes_phase0 cfg flats prevEpoch prevAtts currAtts

/-- non-vacuity: a registry with attestations and matching balances -/
example : ∃ (flats : List Validator) (balances : List Nat) (atts : List ResolvedAtt),
    flats ≠ [] ∧ atts ≠ [] ∧ balances.length = flats.length :=
  ⟨[default, default], [1, 2], [⟨[0, 1], 1, 0, true, false⟩], by simp, by simp, rfl⟩

/-! ## The reachable-registry invariant and the snapshot for the slashings step -/

/-- `WF_preserved_epoch`: the registry invariant `WF` (a slashed validator has an exit epoch; exit ≤ withdrawable;
activation ≤ exit) is preserved by everything the epoch transition does to the registry: both loops of
`process_registry_updates` and `process_effective_balance_updates` (the other sub-transitions do not write
validators). `hcae`: the activation epoch assigned this epoch is representable. -/
theorem WF_preserved_epoch (cfg : Config) (cur fin limit : Nat) (vals : List Validator) (balances : List Nat)
    (hwf : Lemmas.WF vals) (hcae : compute_activation_exit_epoch cfg cur ≤ FAR_FUTURE_EPOCH) :
    Lemmas.WF (registry_activations_pure cfg cur fin limit (registry_eligibility_and_ejections_pure cfg cur vals)) ∧
    Lemmas.WF (process_effective_balance_updates_pure cfg
      (registry_activations_pure cfg cur fin limit (registry_eligibility_and_ejections_pure cfg cur vals)) balances) := by
  have h1 := Lemmas.WF_activations cfg cur fin limit _ (Lemmas.WF_first_loop cfg cur vals hwf) hcae
  exact ⟨h1, Lemmas.WF_effective_balance cfg _ balances h1⟩

/-- non-vacuity: a registry satisfying `WF` with an active, a slashed-and-exited and a pending validator -/
example : Lemmas.WF [⟨default, default, 32, false, 0, 0, FAR_FUTURE_EPOCH, FAR_FUTURE_EPOCH⟩,
    ⟨default, default, 32, true, 0, 0, 5, 40⟩,
    ⟨default, default, 32, false, FAR_FUTURE_EPOCH, FAR_FUTURE_EPOCH, FAR_FUTURE_EPOCH, FAR_FUTURE_EPOCH⟩] := by
  intro v hv
  simp only [List.mem_cons, List.not_mem_nil, or_false] at hv
  rcases hv with rfl | rfl | rfl <;> (refine ⟨?_, ?_, ?_⟩ <;> simp [FAR_FUTURE_EPOCH])

/-- `flat_snapshot_sound` (slashings): under `WF`, the registry update changes nothing that the slashings step reads —
`slashed`, `effective_balance`, the withdrawable epoch of SLASHED validators (an ejection only touches validators
without an exit epoch, and those are not slashed), and who is active in the current epoch. -/
theorem flat_snapshot_sound_slashings (cfg : Config) (cur fin limit : Nat) (vals : List Validator)
    (hwf : Lemmas.WF vals) (hcur : cur < FAR_FUTURE_EPOCH) :
    (registry_activations_pure cfg cur fin limit (registry_eligibility_and_ejections_pure cfg cur vals)).map Lemmas.slashKey =
      vals.map Lemmas.slashKey ∧
    (registry_activations_pure cfg cur fin limit (registry_eligibility_and_ejections_pure cfg cur vals)).map
        (is_active_validator · cur) = vals.map (is_active_validator · cur) := by
  constructor
  · rw [Lemmas.registry_activations_map_same Lemmas.slashKey cfg cur fin limit _ (fun _ _ => rfl)]
    exact Lemmas.first_loop_slashKey cfg cur vals hwf
  · rw [Lemmas.activations_active_same cfg cur fin limit _ hcur]
    exact Lemmas.first_loop_active_same cfg cur vals

/-- `slashings_snapshot_eq`: `phase0.ProcessEpochSlashings` reading the START-of-epoch snapshot (`flats = vals`) equals the
spec's `process_slashings` on the registry as it is AFTER `process_registry_updates`, with the total active balance of
that updated registry — for every `WF` registry. (Without `WF` it is false: a slashed validator without an exit epoch
would be ejected, its withdrawable epoch would change and only the spec would see that.) -/
theorem slashings_snapshot_eq (cfg : Config) (fork : Fork) (cur fin limit : Nat) (vals : List Validator)
    (slashings balances : List Nat) (hwf : Lemmas.WF vals) (hcur : cur < FAR_FUTURE_EPOCH)
    (hlen : vals.length ≤ balances.length) :
    Impl.processEpochSlashings cfg fork cur vals slashings balances =
      process_slashings_pure cfg fork cur
          (total_active_balance_of cfg
            (registry_activations_pure cfg cur fin limit (registry_eligibility_and_ejections_pure cfg cur vals)) cur)
          slashings
          (registry_activations_pure cfg cur fin limit (registry_eligibility_and_ejections_pure cfg cur vals)) balances
        ++ balances.drop vals.length := by
  obtain ⟨hk, ha⟩ := flat_snapshot_sound_slashings cfg cur fin limit vals hwf hcur
  rw [slashings_eq cfg fork cur slashings vals balances hlen]
  congr 1
  -- same total
  have htot : Impl.totalActiveStake cfg vals cur = total_active_balance_of cfg
      (registry_activations_pure cfg cur fin limit (registry_eligibility_and_ejections_pure cfg cur vals)) cur := by
    rw [totalActiveStake_eq, ← Lemmas.total_active_balance_of_eq]
    apply Lemmas.total_active_congr
    -- pair up activity and effective balance
    have he : (registry_activations_pure cfg cur fin limit (registry_eligibility_and_ejections_pure cfg cur vals)).map
        (·.effective_balance) = vals.map (·.effective_balance) := by
      have := congrArg (List.map (fun (k : Bool × Nat × Nat) => k.2.1)) hk
      simpa [List.map_map, Function.comp_def, Lemmas.slashKey] using this
    apply List.ext_getElem?
    intro i
    have h1 := congrArg (fun l => l[i]?) ha
    have h2 := congrArg (fun l => l[i]?) he
    simp only [List.getElem?_map] at h1 h2 ⊢
    cases hx : (registry_activations_pure cfg cur fin limit (registry_eligibility_and_ejections_pure cfg cur vals))[i]? <;>
      cases hy : vals[i]? <;> simp_all
  rw [htot]
  exact (Lemmas.slashings_pure_congr cfg fork cur _ slashings _ _ balances hk).symm

/-! ## The whole epoch transition -/

theorem totalActiveStake_eq_spec (cfg : Config) (vals : List Validator) (cur : Nat) :
    Impl.totalActiveStake cfg vals cur = total_active_balance_of cfg vals cur := by
  rw [totalActiveStake_eq, Lemmas.total_active_balance_of_eq]

/-- the finalized checkpoint after weighing is one of three known checkpoints -/
theorem weigh_finalized_le (prev cur : Nat) (f : FFG) (total pt ct : Nat) (pr cr : Bytes)
    (h1 : f.finalized_checkpoint.epoch ≤ cur) (h2 : f.previous_justified_checkpoint.epoch ≤ cur)
    (h3 : f.current_justified_checkpoint.epoch ≤ cur) :
    (weigh_justification_and_finalization_pure prev cur f total pt ct pr cr).finalized_checkpoint.epoch ≤ cur := by
  unfold weigh_justification_and_finalization_pure
  simp only [Id.run, pure, bind]
  by_cases c1 : pt * 3 ≥ total * 2 <;> by_cases c2 : ct * 3 ≥ total * 2 <;> simp only [c1, c2, ↓reduceIte] <;>
    (repeat' split) <;> first | exact h1 | exact h2 | exact h3

/-- what a state must satisfy for the composed theorem (all of it holds in reachable states) -/
structure EpochWF (cfg : Config) (s : State) : Prop where
  wf : Lemmas.WF s.validators
  small : Lemmas.EpochsSmall cfg (get_current_epoch cfg s) s.validators
  bal_len : s.balances.length = s.validators.length
  bits : s.justification_bits.length = 4
  pj : s.previous_justified_checkpoint.epoch ≤ get_current_epoch cfg s
  cj : s.current_justified_checkpoint.epoch ≤ get_current_epoch cfg s
  fin : s.finalized_checkpoint.epoch ≤ get_current_epoch cfg s
  part_len : s.fork ≠ .phase0 → s.current_epoch_participation.length = s.validators.length

theorem justification_stage_eq (cfg : Config) (inp : EpochInputs) (prev cur : Nat) (s : State)
    (hbits : s.justification_bits.length = 4) :
    Impl.justificationStage cfg inp prev cur s.validators s = justification_stage cfg inp prev cur s := by
  unfold Impl.justificationStage justification_stage
  split
  · rfl
  · simp only [totalActiveStake_eq_spec]
    by_cases hf : s.fork = .phase0
    · simp only [hf, ↓reduceIte]
      rw [justification_eq prev cur (ffgOf s) _ _ _ _ _ hbits]
      have := targetStakes_phase0_eq cfg s.validators prev inp.prevAtts inp.currAtts
      rw [← this]
    · simp only [hf, ↓reduceIte]
      rw [justification_eq prev cur (ffgOf s) _ _ _ _ _ hbits]
      have := (currentTargetStake_eq cfg s.validators s.previous_epoch_participation s.current_epoch_participation prev cur).1
      rw [← this]

/-- frame of the justification stage -/
theorem justification_stage_frame (cfg : Config) (inp : EpochInputs) (prev cur : Nat) (s : State) :
    let s1 := justification_stage cfg inp prev cur s
    s1.validators = s.validators ∧ s1.balances = s.balances ∧ s1.fork = s.fork ∧ s1.slashings = s.slashings ∧
    s1.previous_epoch_participation = s.previous_epoch_participation ∧
    s1.current_epoch_participation = s.current_epoch_participation ∧ s1.inactivity_scores = s.inactivity_scores := by
  simp only [justification_stage]
  split <;> exact ⟨rfl, rfl, rfl, rfl, rfl, rfl, rfl⟩

theorem justification_stage_fin (cfg : Config) (inp : EpochInputs) (prev cur : Nat) (s : State)
    (h1 : s.finalized_checkpoint.epoch ≤ cur) (h2 : s.previous_justified_checkpoint.epoch ≤ cur)
    (h3 : s.current_justified_checkpoint.epoch ≤ cur) :
    (justification_stage cfg inp prev cur s).finalized_checkpoint.epoch ≤ cur := by
  unfold justification_stage
  split
  · exact h1
  · exact weigh_finalized_le prev cur (ffgOf s) _ _ _ _ _ h1 h2 h3

theorem inactivity_stage_eq (cfg : Config) (prev cur : Nat) (s : State) :
    Impl.inactivityStage cfg prev cur s.validators s = inactivity_stage cfg prev cur s := by
  unfold Impl.inactivityStage inactivity_stage
  split
  · rfl
  · simp only []
    rw [(currentTargetStake_eq cfg s.validators s.previous_epoch_participation s.current_epoch_participation prev cur).2,
      inactivity_eq]

theorem inactivity_stage_frame (cfg : Config) (prev cur : Nat) (s : State) :
    let s1 := inactivity_stage cfg prev cur s
    s1.validators = s.validators ∧ s1.balances = s.balances ∧ s1.fork = s.fork ∧ s1.slashings = s.slashings ∧
    s1.previous_epoch_participation = s.previous_epoch_participation ∧
    s1.current_epoch_participation = s.current_epoch_participation ∧
    s1.finalized_checkpoint = s.finalized_checkpoint := by
  simp only [inactivity_stage]
  split <;> exact ⟨rfl, rfl, rfl, rfl, rfl, rfl, rfl⟩

theorem rewards_stage_eq (cfg : Config) (inp : EpochInputs) (prev cur : Nat) (s : State)
    (hlen : s.balances.length = s.validators.length) :
    Impl.rewardsStage cfg inp prev cur s.validators s = rewards_stage cfg inp prev cur s := by
  unfold Impl.rewardsStage rewards_stage
  split
  · rfl
  · simp only [totalActiveStake_eq_spec]
    split
    · rw [rewards_phase0_eq cfg s.validators prev cur inp.prevAtts inp.currAtts _ s.balances hlen]
      rfl
    · rw [(currentTargetStake_eq cfg s.validators s.previous_epoch_participation s.current_epoch_participation prev cur).2,
        rewards_altair_eq cfg s.validators _ _ s.balances prev cur _ _ hlen]

theorem apply_deltas_pure_length (n : Nat) (balances : List Nat) (d : Deltas) :
    (apply_deltas_pure n balances d).length = balances.length := by
  unfold apply_deltas_pure
  refine Lemmas.foldl_preserves (fun (b : List Nat) => b.length = balances.length) _ _ _ rfl ?_
  intro b i hb
  cases b[i]? <;> simp [hb]

theorem foldl_apply_deltas_length (n : Nat) (ds : List Deltas) (balances : List Nat) :
    (ds.foldl (apply_deltas_pure n) balances).length = balances.length := by
  induction ds generalizing balances with
  | nil => rfl
  | cons d ds ih => simp only [List.foldl_cons]; rw [ih, apply_deltas_pure_length]

theorem rewards_stage_frame (cfg : Config) (inp : EpochInputs) (prev cur : Nat) (s : State) :
    let s1 := rewards_stage cfg inp prev cur s
    s1.validators = s.validators ∧ s1.balances.length = s.balances.length ∧ s1.fork = s.fork ∧ s1.slashings = s.slashings ∧
    s1.current_epoch_participation = s.current_epoch_participation ∧
    s1.finalized_checkpoint = s.finalized_checkpoint := by
  simp only [rewards_stage]
  split
  · exact ⟨rfl, rfl, rfl, rfl, rfl, rfl⟩
  · split
    · refine ⟨rfl, ?_, rfl, rfl, rfl, rfl⟩
      simp only [process_rewards_and_penalties_phase0_pure, apply_deltas_pure_length]
    · refine ⟨rfl, ?_, rfl, rfl, rfl, rfl⟩
      simp only [process_rewards_and_penalties_altair_pure, foldl_apply_deltas_length]

theorem registry_stage_eq (cfg : Config) (cur : Nat) (flats : List Validator) (s : State) (hv : s.validators = flats)
    (hsmall : Lemmas.EpochsSmall cfg cur flats) (hfin : s.finalized_checkpoint.epoch ≤ cur) :
    Impl.registryStage cfg cur flats s = registry_stage cfg cur s := by
  unfold Impl.registryStage registry_stage
  subst hv
  rw [registry_updates_eq cfg _ cur _ s.validators hsmall hfin]
  by_cases hd : s.fork ≥ .deneb <;> simp [hd]

theorem registry_length (cfg : Config) (cur fin limit : Nat) (vals : List Validator) :
    (registry_activations_pure cfg cur fin limit (registry_eligibility_and_ejections_pure cfg cur vals)).length = vals.length := by
  have := congrArg List.length (flat_snapshot_sound cfg cur fin limit vals)
  simpa using this

theorem slashings_stage_eq (cfg : Config) (cur : Nat) (flats : List Validator) (s0 : State)
    (hwf : Lemmas.WF flats) (hcur : cur < FAR_FUTURE_EPOCH) (hlen : flats.length ≤ s0.balances.length)
    (hv : s0.validators = flats) :
    Impl.slashingsStage cfg cur flats (registry_stage cfg cur s0) = slashings_stage cfg cur (registry_stage cfg cur s0) := by
  unfold Impl.slashingsStage slashings_stage
  subst hv
  simp only [registry_stage]
  rw [slashings_snapshot_eq cfg s0.fork cur s0.finalized_checkpoint.epoch _ s0.validators s0.slashings s0.balances hwf hcur hlen,
    registry_length]

theorem slashings_pure_length (cfg : Config) (fork : Fork) (epoch total : Nat) (slashings : List Nat)
    (vals : List Validator) (balances : List Nat) (k : Nat) (hk : vals.length = k) (h : k ≤ balances.length) :
    (process_slashings_pure cfg fork epoch total slashings vals balances ++ balances.drop k).length = balances.length := by
  unfold process_slashings_pure
  simp only [List.length_append, List.length_map, List.length_zip, List.length_drop]
  omega

theorem effective_balance_stage_eq (cfg : Config) (cur fin limit : Nat) (flats : List Validator) (x : State)
    (hv : x.validators = registry_activations_pure cfg cur fin limit (registry_eligibility_and_ejections_pure cfg cur flats))
    (hlen : flats.length ≤ x.balances.length) :
    Impl.effectiveBalanceStage cfg flats x = effective_balance_stage cfg x := by
  unfold Impl.effectiveBalanceStage effective_balance_stage
  rw [hv, effectiveBalance_snapshot_eq cfg cur fin limit flats x.balances hlen]

theorem eth1_stage_eq (cfg : Config) (cur : Nat) (x : State) : Impl.eth1Stage cfg cur x = eth1_stage cfg cur x := by
  unfold Impl.eth1Stage eth1_stage
  rw [(resets_eq cfg cur x.eth1_data_votes [] []).1]

theorem slashings_reset_stage_eq (cfg : Config) (cur : Nat) (x : State) :
    Impl.slashingsResetStage cfg cur x = slashings_reset_stage cfg cur x := rfl

theorem randao_stage_eq (cfg : Config) (cur : Nat) (x : State) : Impl.randaoStage cfg cur x = randao_stage cfg cur x := by
  unfold Impl.randaoStage randao_stage
  rw [(resets_eq cfg cur [] [] x.randao_mixes).2.2]

theorem historical_stage_eq (cfg : Config) (cur : Nat) (x : State) :
    Impl.historicalStage cfg cur x = historical_stage cfg cur x := by
  unfold Impl.historicalStage historical_stage
  split
  · rw [(historical_eq cfg cur x.block_roots x.state_roots [] x.historical_summaries).2]
  · rw [(historical_eq cfg cur x.block_roots x.state_roots x.historical_roots []).1]

theorem participation_stage_eq (x : State) (h : x.fork ≠ .phase0 → x.current_epoch_participation.length = x.validators.length) :
    Impl.participationStage x = participation_stage x := by
  unfold Impl.participationStage participation_stage
  split
  · rfl
  · rename_i hf
    rw [(participation_rotation_eq x.validators.length x.current_epoch_participation [] (h hf)).1]

theorem sync_stage_eq (cfg : Config) (inp : EpochInputs) (cur : Nat) (x : State) :
    Impl.syncStage cfg inp cur x = sync_stage cfg inp cur x := by
  unfold Impl.syncStage sync_stage
  split
  · rfl
  · rw [(syncCommittee_rotation_eq cfg [] [] ByteArray.empty id 0 cur x.current_sync_committee x.next_sync_committee inp.computedSync).2]

theorem historical_stage_frame (cfg : Config) (cur : Nat) (x : State) :
    (historical_stage cfg cur x).fork = x.fork ∧
    (historical_stage cfg cur x).current_epoch_participation = x.current_epoch_participation ∧
    (historical_stage cfg cur x).validators = x.validators := by
  unfold historical_stage
  split <;> exact ⟨rfl, rfl, rfl⟩

theorem effective_balance_pure_length (cfg : Config) (vals : List Validator) (balances : List Nat) (h : vals.length ≤ balances.length) :
    (process_effective_balance_updates_pure cfg vals balances).length = vals.length := by
  unfold process_effective_balance_updates_pure
  simp only [List.length_map, List.length_zip]
  omega

/-- `processEpoch_eq`: the whole `ProcessEpoch` of zrnt (phase0 and altair … deneb; snapshot of the registry and attester
data taken once, sub-steps in order) equals the whole `process_epoch` of the spec, for every state satisfying
`EpochWF` (which reachable states do), every configuration and the same oracle inputs. Assembled from the
sub-transition theorems; the registry, slashings and effective-balance steps need the snapshot lemmas. -/
theorem processEpoch_eq (cfg : Config) (inp : EpochInputs) (s : State) (h : EpochWF cfg s) :
    Impl.processEpochPure cfg inp s = process_epoch_pure cfg inp s := by
  unfold Impl.processEpochPure process_epoch_pure
  simp only []
  generalize hprev : get_previous_epoch cfg s = prev
  generalize hcur : get_current_epoch cfg s = cur
  have hsmall := h.small; rw [hcur] at hsmall
  have hcurlt : cur < FAR_FUTURE_EPOCH := by
    have := hsmall.1; unfold compute_activation_exit_epoch at this; omega
  -- stage 1
  rw [justification_stage_eq cfg inp prev cur s h.bits]
  obtain ⟨v1, b1, f1, sl1, pp1, cp1, is1⟩ := justification_stage_frame cfg inp prev cur s
  have fin1 := justification_stage_fin cfg inp prev cur s (hcur ▸ h.fin) (hcur ▸ h.pj) (hcur ▸ h.cj)
  generalize justification_stage cfg inp prev cur s = s1 at *
  -- stage 2
  rw [← v1, inactivity_stage_eq cfg prev cur s1]
  obtain ⟨v2, b2, f2, sl2, pp2, cp2, fc2⟩ := inactivity_stage_frame cfg prev cur s1
  generalize inactivity_stage cfg prev cur s1 = s2 at *
  -- stage 3
  rw [← v2, rewards_stage_eq cfg inp prev cur s2 (by rw [b2, b1, v2, v1]; exact h.bal_len)]
  obtain ⟨v3, b3, f3, sl3, cp3, fc3⟩ := rewards_stage_frame cfg inp prev cur s2
  generalize rewards_stage cfg inp prev cur s2 = s3 at *
  -- stage 4
  have hv3 : s3.validators = s.validators := by rw [v3, v2, v1]
  have hb3 : s3.balances.length = s.validators.length := by rw [b3, b2, b1]; exact h.bal_len
  rw [v2, v1, registry_stage_eq cfg cur s.validators s3 hv3 hsmall (by rw [fc3, fc2]; exact fin1)]
  -- stage 5
  rw [slashings_stage_eq cfg cur s.validators s3 h.wf hcurlt (by omega) hv3]
  -- stage 6
  rw [eth1_stage_eq]
  -- stage 7
  rw [effective_balance_stage_eq cfg cur s3.finalized_checkpoint.epoch
      (if s3.fork ≥ .deneb then min cfg.MAX_PER_EPOCH_ACTIVATION_CHURN_LIMIT
          (churn_limit_of cfg (registry_eligibility_and_ejections_pure cfg cur s3.validators) cur)
        else churn_limit_of cfg (registry_eligibility_and_ejections_pure cfg cur s3.validators) cur)
      s.validators _ (by simp only [eth1_stage, slashings_stage, registry_stage, hv3])
      (by
        simp only [eth1_stage, slashings_stage, registry_stage]
        rw [registry_length, hv3, slashings_pure_length _ _ _ _ _ _ _ _ (registry_length _ _ _ _ _) (by omega)]
        omega)]
  -- stages 8-10
  rw [slashings_reset_stage_eq, randao_stage_eq, historical_stage_eq]
  -- stage 11
  rw [participation_stage_eq _ (by
    obtain ⟨hf', hcp', hv'⟩ := historical_stage_frame cfg cur (randao_stage cfg cur (slashings_reset_stage cfg cur
      (effective_balance_stage cfg (eth1_stage cfg cur (slashings_stage cfg cur (registry_stage cfg cur s3))))))
    rw [hf', hcp', hv']
    simp only [randao_stage, slashings_reset_stage, effective_balance_stage, eth1_stage, slashings_stage, registry_stage]
    intro hf
    have hfork : s.fork ≠ .phase0 := by rw [f3, f2, f1] at hf; exact hf
    rw [cp3, cp2, cp1, h.part_len hfork,
      effective_balance_pure_length _ _ _ (by
        rw [registry_length, hv3, slashings_pure_length _ _ _ _ _ _ _ _ (registry_length _ _ _ _ _) (by omega)]; omega),
      registry_length, hv3])]
  -- stage 12
  rw [sync_stage_eq]

/-- non-vacuity of `EpochWF`: a one-validator phase0 state -/
def exampleState : State :=
  let d : State := default
  { d with validators := [default], balances := [0], justification_bits := [false, false, false, false] }

example : EpochWF default exampleState := by
  have hv : exampleState.validators = [default] := rfl
  refine ⟨?_, ⟨by decide, ?_⟩, rfl, rfl, by decide, by decide, by decide, fun h => absurd rfl h⟩
  · intro v hv'
    rw [hv] at hv'
    simp only [List.mem_cons, List.not_mem_nil, or_false] at hv'
    subst hv'
    refine ⟨fun h => ?_, by decide, by decide⟩
    exact absurd h (by decide)
  · intro v hv' _
    rw [hv] at hv'
    simp only [List.mem_cons, List.not_mem_nil, or_false] at hv'
    subst hv'; decide

/-! ## Slots

`processSlots_eq` (full statement, NOT proved): for every reachable state `s` and every target slot,
`common.ProcessSlots` = `process_slots` including the fork upgrades. What is proved is the composition step: over any
number of slots, a slot loop that runs zrnt's `ProcessEpoch` at the epoch boundaries equals the slot loop that runs the
spec's `process_epoch`, PROVIDED the invariant `EpochWF` holds wherever an epoch transition starts. That `EpochWF` is
re-established by `process_slot`, by the whole of `process_epoch` (only its registry part, `WF_preserved_epoch`, is
proved) and by the fork upgrades is not proved; `process_slot` and the upgrades have no separate model (they are the
same definitions on both sides) and rest on the correspondence Go = S. -/

/-- one slot: cache roots (`slotFn`), epoch transition at the boundary, advance the slot, upgrade (`upgFn`) -/
def slotStep (epochFn : Config → EpochInputs → State → State) (cfg : Config) (slotFn upgFn : State → State)
    (inp : EpochInputs) (s : State) : State :=
  let s := slotFn s
  let s := if (s.slot + 1) % cfg.SLOTS_PER_EPOCH = 0 then epochFn cfg inp s else s
  upgFn { s with slot := s.slot + 1 }

def slotsLoop (epochFn : Config → EpochInputs → State → State) (cfg : Config) (slotFn upgFn : State → State)
    (inps : List EpochInputs) (s : State) : State :=
  inps.foldl (fun s inp => slotStep epochFn cfg slotFn upgFn inp s) s

/-- `processSlots_eq_partial`: induction on the number of slots. `Inv` is any invariant that holds initially, is kept by
one slot step of the SPEC, and gives `EpochWF` at the point where the epoch transition starts. -/
theorem processSlots_eq_partial (cfg : Config) (slotFn upgFn : State → State) (Inv : State → Prop)
    (hwf : ∀ x, Inv x → EpochWF cfg (slotFn x))
    (hstep : ∀ x inp, Inv x → Inv (slotStep process_epoch_pure cfg slotFn upgFn inp x))
    (inps : List EpochInputs) (s : State) (hs : Inv s) :
    slotsLoop Impl.processEpochPure cfg slotFn upgFn inps s = slotsLoop process_epoch_pure cfg slotFn upgFn inps s := by
  unfold slotsLoop
  induction inps generalizing s with
  | nil => rfl
  | cons inp rest ih =>
    simp only [List.foldl_cons]
    have h1 : slotStep Impl.processEpochPure cfg slotFn upgFn inp s = slotStep process_epoch_pure cfg slotFn upgFn inp s := by
      unfold slotStep
      simp only []
      rw [processEpoch_eq cfg inp (slotFn s) (hwf s hs)]
    rw [h1]
    exact ih _ (hstep s inp hs)

/-- non-vacuity: the trivial invariant on a configuration where no epoch boundary … is NOT what is meant; a real
instance is `Inv := fun x => EpochWF cfg (slotFn x)` with a `slotFn` that only writes the root caches -/
example : ∃ (Inv : State → Prop) (s : State), Inv s := ⟨fun _ => True, default, trivial⟩

/-! ## `ProcessSlot`, the four upgrades, `UpgradeMaybe` -/

/-- `processSlot_eq`: `common.ProcessSlot` (roots written at `slot % VectorLength` of the batch vectors, header state
root filled in on a local copy that is then hashed) = `process_slot`, when the two batch vectors have
`SLOTS_PER_HISTORICAL_ROOT` entries (their SSZ type). -/
theorem processSlot_eq (cfg : Config) (root : Bytes) (s : State)
    (h1 : s.state_roots.length = cfg.SLOTS_PER_HISTORICAL_ROOT) (h2 : s.block_roots.length = cfg.SLOTS_PER_HISTORICAL_ROOT) :
    Impl.processSlot root s = process_slot_pure cfg root s :=
  Lemmas.processSlot_eq' cfg root s h1 h2

/-- non-vacuity -/
example : ∃ (cfg : Config) (s : State), s.state_roots.length = cfg.SLOTS_PER_HISTORICAL_ROOT ∧
    s.block_roots.length = cfg.SLOTS_PER_HISTORICAL_ROOT := ⟨default, default, rfl, rfl⟩

/-- `upgrade_altair_eq`: `altair.UpgradeToAltair` (every field read and passed to `FromFields`; `TranslateParticipation`
OR-ing the flag BIT MASK of `GetApplicableAttestationParticipationFlags` into the registry entries of the
participants; one computed sync committee used twice) = `upgrade_to_altair` (`translate_participation` adding the
flag INDICES one by one with `add_flag`; `get_next_sync_committee` evaluated twice on the same state). -/
theorem upgrade_altair_eq (cfg : Config) (inp : UpgradeInputs) (pre : State) :
    Impl.upgradeToAltair cfg inp pre = upgrade_to_altair_pure cfg inp pre :=
  Lemmas.upgradeToAltair_eq' cfg inp pre

/-- `TranslateParticipation` = `translate_participation` on any registry of 3-bit participation values -/
theorem translate_participation_eq (cfg : Config) (atts : List FlagAtt) (participation : List Nat)
    (hsmall : ∀ x ∈ participation, x < 8) :
    Impl.translateParticipation cfg atts participation = translate_participation_pure cfg atts participation :=
  Lemmas.translateParticipation_eq' cfg atts participation hsmall

/-- non-vacuity -/
example : ∀ x ∈ [0, 3, 7], x < 8 := by decide

theorem upgrade_bellatrix_eq (cfg : Config) (pre : State) :
    Impl.upgradeToBellatrix cfg pre = upgrade_to_bellatrix_pure cfg pre := Lemmas.upgradeToBellatrix_eq' cfg pre

theorem upgrade_capella_eq (cfg : Config) (pre : State) :
    Impl.upgradeToCapella cfg pre = upgrade_to_capella_pure cfg pre := Lemmas.upgradeToCapella_eq' cfg pre

theorem upgrade_deneb_eq (cfg : Config) (pre : State) :
    Impl.upgradeToDeneb cfg pre = upgrade_to_deneb_pure cfg pre := Lemmas.upgradeToDeneb_eq' cfg pre

/-- `upgradeMaybe_eq`: the chain of four independent `if`s of `UpgradeMaybe` (dynamic type of the state and
`slot == FORK_EPOCH * SLOTS_PER_EPOCH`) = "upgrade at the first slot of the fork's epoch, in fork order", for EVERY
fork schedule (no monotonicity needed at this level: both sides skip a fork whose predecessor type is not there;
equal fork epochs upgrade several times at one slot on both sides). (`state_fork_invariant` of the configuration
component says what type the state then has along a monotone schedule.) -/
theorem upgradeMaybe_eq (cfg : Config) (inp : UpgradeInputs) (s : State) (hspe : 0 < cfg.SLOTS_PER_EPOCH) :
    Impl.upgradeMaybe cfg inp s = upgrade_maybe_pure cfg inp s :=
  Lemmas.upgradeMaybe_eq' cfg inp s hspe

/-- one iteration of `common.ProcessSlots` (epoch end detected by comparing the epochs of the two slots) = one
iteration of `process_slots` with the upgrade that follows, for the same epoch function -/
theorem processSlotsStep_eq (cfg : Config) (inp : SlotInputs) (s : State) (hspe : 0 < cfg.SLOTS_PER_EPOCH)
    (h1 : s.state_roots.length = cfg.SLOTS_PER_HISTORICAL_ROOT) (h2 : s.block_roots.length = cfg.SLOTS_PER_HISTORICAL_ROOT) :
    Impl.processSlotsStep cfg inp s = process_slot_step_pure Impl.processEpochPure cfg inp s := by
  unfold Impl.processSlotsStep process_slot_step_pure
  simp only [processSlot_eq cfg inp.stateRoot s h1 h2, upgradeMaybe_eq cfg _ _ hspe, Impl.slotToEpoch, Lemmas.epoch_end_iff]
  have hslot : (process_slot_pure cfg inp.stateRoot s).slot = s.slot := by
    unfold process_slot_pure; simp only []; split <;> rfl
  simp only [hslot, decide_eq_true_eq]
  congr 1
  split
  · rw [Lemmas.processEpochPure_slot, hslot]
  · rw [hslot]

/-! ## `process_slots`, in full -/

/-- the slot-loop invariant gives what `processEpoch_eq` asks of a state -/
theorem EpochWF_of_Q (cfg : Config) (C N : Nat) (s : State) (h : Lemmas.Q cfg C N (get_current_epoch cfg s) s)
    (hC : C + N + 1 < FAR_FUTURE_EPOCH) : EpochWF cfg s := by
  have hq := Lemmas.cae_le_qmax cfg (get_current_epoch cfg s) s.validators
  have hb := h.budget
  refine { wf := h.wf, small := ⟨?_, ?_⟩, bal_len := by rw [h.blen, h.vlen], bits := h.bits, pj := h.pj, cj := h.cj,
           fin := h.fin, part_len := fun hf => by rw [h.plen hf, h.vlen] }
  · rw [h.vlen]; omega
  · intro v hv hne
    have := Lemmas.le_qmax cfg (get_current_epoch cfg s) s.validators v hv hne
    rw [h.vlen]; omega

/-- `Q_genesis_like`: a state shaped like a genesis state satisfies the slot-loop invariant, with budget
`compute_activation_exit_epoch(epoch) + N`. The hypotheses on the registry are exactly what C13's `genesis_activation`
and `genesis_effective_balance` (Proofs/Properties/C13.lean) prove of `initialize_beacon_state_from_eth1`'s output:
nobody exiting, withdrawable or slashed, activation epoch `GENESIS_EPOCH` or `FAR_FUTURE_EPOCH`, one balance per
validator; the rest (4 justification bits, checkpoint epochs 0, phase0, batch vectors of the configured length) is
how that function fills the remaining fields. -/
theorem Q_genesis_like (cfg : Config) (s : State)
    (hreg : ∀ v ∈ s.validators, v.exit_epoch = FAR_FUTURE_EPOCH ∧ v.withdrawable_epoch = FAR_FUTURE_EPOCH ∧
      v.slashed = false ∧ (v.activation_epoch = GENESIS_EPOCH ∨ v.activation_epoch = FAR_FUTURE_EPOCH))
    (hbal : s.validators.length = s.balances.length) (hbits : s.justification_bits.length = 4)
    (hpj : s.previous_justified_checkpoint.epoch = 0) (hcj : s.current_justified_checkpoint.epoch = 0)
    (hfin : s.finalized_checkpoint.epoch = 0) (hfork : s.fork = .phase0)
    (hsr : s.state_roots.length = cfg.SLOTS_PER_HISTORICAL_ROOT) (hbr : s.block_roots.length = cfg.SLOTS_PER_HISTORICAL_ROOT) :
    Lemmas.Q cfg (compute_activation_exit_epoch cfg (get_current_epoch cfg s) + s.validators.length) s.validators.length
      (get_current_epoch cfg s) s := by
  have hex : Lemmas.exits s.validators = [] := by
    unfold Lemmas.exits
    rw [List.map_eq_nil_iff, List.filter_eq_nil_iff]
    intro v hv; simp [(hreg v hv).1]
  refine { wf := ?_, budget := ?_, vlen := rfl, blen := hbal.symm, bits := hbits, pj := by omega, cj := by omega,
           fin := by omega, plen := fun h => absurd hfork h, srlen := hsr, brlen := hbr }
  · intro v hv
    obtain ⟨h1, h2, h3, h4⟩ := hreg v hv
    refine ⟨fun hs => ?_, ?_, ?_⟩
    · rw [h3] at hs; exact absurd hs (by decide)
    · exact Nat.le_of_eq (h1.trans h2.symm)
    · rcases h4 with h | h
      · exact Nat.le_trans (Nat.le_of_eq h) (Nat.zero_le _)
      · exact Nat.le_of_eq (h.trans h1.symm)
  · rw [Lemmas.qmax_eq, hex]
    have : Lemmas.farCount s.validators ≤ s.validators.length := by
      unfold Lemmas.farCount Lemmas.qcount; exact List.length_filter_le _ _
    simp only [List.foldl_nil]; omega

/-- **`Q_genesis`: every genesis state satisfies the slot-loop invariant** — for EVERY deposit list (any number of
deposits, top-ups, invalid signatures, with or without proof checking) on which C13's
`initialize_beacon_state_from_eth1` (`Zrnt.Beacon.Genesis`, the specification transcription C13 runs three-way against
`phase0.GenesisFromEth1`) succeeds. No field hypothesis is left: the registry facts are C13's `genesis_activation` and
`genesis_effective_balance`, the rest (`Lemmas.genesis_frame`) is how `genesisBlank` fills the fields the deposits and
activations never touch. Hence `processSlots_eq` / `processSlots_oracle_eq` apply to every chain started from a genesis
state, for any number of slots below the (2^64-scale) budget. -/
theorem Q_genesis (cfg : Config) (eth1_block_hash : Bytes) (eth1_timestamp : Nat) (deposits : List Genesis.DepositIn)
    (checkProof : Bool) (s : State)
    (h : Genesis.initialize_beacon_state_from_eth1 cfg eth1_block_hash eth1_timestamp deposits checkProof = .ok s) :
    Lemmas.Q cfg (compute_activation_exit_epoch cfg (get_current_epoch cfg s) + s.validators.length) s.validators.length
      (get_current_epoch cfg s) s := by
  have hf := Lemmas.genesis_frame h
  have ha := Zrnt.Proofs.C13.genesis_activation h
  have hb := (Zrnt.Proofs.C13.genesis_effective_balance h).1
  refine Q_genesis_like cfg s ?_ hb hf.bits hf.pj hf.cj hf.fin hf.fork hf.srlen hf.brlen
  intro v hv
  obtain ⟨h1, h2, h3, h4, h5⟩ := ha v hv
  refine ⟨h3, h4, h5, ?_⟩
  by_cases he : v.effective_balance = cfg.MAX_EFFECTIVE_BALANCE
  · exact Or.inl (h1 he).2
  · exact Or.inr (h2 he).2

/-- non-vacuity of `Q_genesis`: genesis succeeds on the empty deposit list, and on a one-deposit list (a full deposit with
a valid signature; `checkProof = false` spares the example a Merkle branch) where it creates one validator -/
example : ∃ s, Genesis.initialize_beacon_state_from_eth1 default ZERO32 0 [] true = .ok s := ⟨_, rfl⟩

def exampleDeposit : Genesis.DepositIn :=
  { (default : Genesis.DepositIn) with amount := 32, pkOk := true, sigDecodes := true, verifyOk := true }

example : ∃ s, Genesis.initialize_beacon_state_from_eth1 default ZERO32 0 [exampleDeposit] false = .ok s ∧
    s.validators.length = 1 := ⟨_, rfl, rfl⟩

/-- `processSlots_eq`: `common.ProcessSlots` — per slot `ProcessSlot`, zrnt's `ProcessEpoch` when the next slot starts a
new epoch, the slot increment and `UpgradeMaybe` — equals the spec's `process_slots` with the fork upgrades, over ANY
number of slots (one `SlotInputs` each: the state root, the epoch oracle inputs, the upgrade oracle inputs), for
every start state satisfying the invariant `Q` (registry `WF`, exit-queue budget `C`, list lengths, checkpoint epochs
not in the future — see `Q_genesis_like` for genesis-shaped states), every configuration with `SLOTS_PER_EPOCH > 0`
and every fork schedule. The invariant is re-established by `process_slot`, by the whole `process_epoch`, by the slot
increment (one unit of budget per epoch) and by every upgrade, so nothing is assumed about intermediate states. -/
theorem processSlots_eq (cfg : Config) (inps : List SlotInputs) (s : State) (C N : Nat)
    (hspe : 0 < cfg.SLOTS_PER_EPOCH) (hQ : Lemmas.Q cfg C N (get_current_epoch cfg s) s)
    (hbound : C + inps.length + N + 1 < FAR_FUTURE_EPOCH) :
    Impl.processSlots cfg inps s = process_slots_pure cfg inps s := by
  unfold Impl.processSlots process_slots_pure
  induction inps generalizing s C with
  | nil => rfl
  | cons inp rest ih =>
    simp only [List.foldl_cons, List.length_cons] at hbound ⊢
    -- one step: code = spec
    have hstep : Impl.processSlotsStep cfg inp s = process_slot_step_pure process_epoch_pure cfg inp s := by
      rw [processSlotsStep_eq cfg inp s hspe hQ.srlen hQ.brlen]
      unfold process_slot_step_pure
      simp only []
      have hslot : (process_slot_pure cfg inp.stateRoot s).slot = s.slot := by
        unfold process_slot_pure; simp only []; split <;> rfl
      have hcur : get_current_epoch cfg (process_slot_pure cfg inp.stateRoot s) = get_current_epoch cfg s := by
        unfold get_current_epoch; rw [hslot]
      have hQ1 := Lemmas.Q_process_slot cfg inp.stateRoot C N _ s hQ
      rw [← hcur] at hQ1
      rw [processEpoch_eq cfg inp.epoch _ (EpochWF_of_Q cfg C N _ hQ1 (by omega))]
    rw [hstep]
    -- the invariant after the step, one unit of budget later at most
    have hslot : (process_slot_pure cfg inp.stateRoot s).slot = s.slot := by
      unfold process_slot_pure; simp only []; split <;> rfl
    have hQ1 := Lemmas.Q_process_slot cfg inp.stateRoot C N _ s hQ
    have hcae : compute_activation_exit_epoch cfg (get_current_epoch cfg s) ≤ FAR_FUTURE_EPOCH := by
      have := Lemmas.cae_le_qmax cfg (get_current_epoch cfg s) s.validators
      have := hQ.budget; omega
    have hQ2 : Lemmas.Q cfg C N (get_current_epoch cfg s)
        (if (s.slot + 1) % cfg.SLOTS_PER_EPOCH = 0 then process_epoch_pure cfg inp.epoch (process_slot_pure cfg inp.stateRoot s)
         else process_slot_pure cfg inp.stateRoot s) := by
      split
      · have hcur : get_current_epoch cfg (process_slot_pure cfg inp.stateRoot s) = get_current_epoch cfg s := by
          unfold get_current_epoch; rw [hslot]
        have := Lemmas.Q_process_epoch cfg inp.epoch C N (process_slot_pure cfg inp.stateRoot s) (by rw [hcur]; exact hQ1)
          (by omega) (by rw [hcur]; exact hcae)
        rw [hcur] at this; exact this
      · exact hQ1
    have hnext : process_slot_step_pure process_epoch_pure cfg inp s =
        upgrade_maybe_pure cfg inp.upgrade
          { (if (s.slot + 1) % cfg.SLOTS_PER_EPOCH = 0 then process_epoch_pure cfg inp.epoch (process_slot_pure cfg inp.stateRoot s)
             else process_slot_pure cfg inp.stateRoot s) with slot := s.slot + 1 } := by
      unfold process_slot_step_pure
      simp only [hslot]
      congr 2
      split
      · rw [Lemmas.process_epoch_pure_slot, hslot]
      · rw [hslot]
    rw [hnext]
    have hle : get_current_epoch cfg s ≤ (s.slot + 1) / cfg.SLOTS_PER_EPOCH := by
      unfold get_current_epoch compute_epoch_at_slot
      exact Nat.div_le_div_right (Nat.le_succ _)
    have hdiff : (s.slot + 1) / cfg.SLOTS_PER_EPOCH - get_current_epoch cfg s ≤ 1 := by
      unfold get_current_epoch compute_epoch_at_slot
      rw [Nat.succ_div]; split <;> omega
    have hQ3 := Lemmas.Q_upgrade cfg inp.upgrade _ N _ _
      (Lemmas.Q_advance cfg C N (get_current_epoch cfg s) ((s.slot + 1) / cfg.SLOTS_PER_EPOCH) _ hQ2 hle (s.slot + 1))
    apply ih _ (C + ((s.slot + 1) / cfg.SLOTS_PER_EPOCH - get_current_epoch cfg s))
    · -- the epoch of the new state is the epoch of its slot; upgrades do not move the slot
      have hus : ∀ x : State, (upgrade_maybe_pure cfg inp.upgrade x).slot = x.slot := by
        intro x
        unfold upgrade_maybe_pure
        simp only []
        repeat' split
        all_goals rfl
      have : get_current_epoch cfg (upgrade_maybe_pure cfg inp.upgrade
          { (if (s.slot + 1) % cfg.SLOTS_PER_EPOCH = 0 then process_epoch_pure cfg inp.epoch (process_slot_pure cfg inp.stateRoot s)
             else process_slot_pure cfg inp.stateRoot s) with slot := s.slot + 1 }) = (s.slot + 1) / cfg.SLOTS_PER_EPOCH := by
        unfold get_current_epoch compute_epoch_at_slot
        rw [hus]
      rw [this]; exact hQ3
    · omega

/-- genesis states start the chain: `processSlots_eq` from any genesis state -/
theorem processSlots_from_genesis_eq (cfg : Config) (eth1_block_hash : Bytes) (eth1_timestamp : Nat)
    (deposits : List Genesis.DepositIn) (checkProof : Bool) (s : State)
    (h : Genesis.initialize_beacon_state_from_eth1 cfg eth1_block_hash eth1_timestamp deposits checkProof = .ok s)
    (inps : List SlotInputs) (hspe : 0 < cfg.SLOTS_PER_EPOCH)
    (hbound : compute_activation_exit_epoch cfg (get_current_epoch cfg s) + 2 * s.validators.length + inps.length + 1 < FAR_FUTURE_EPOCH) :
    Impl.processSlots cfg inps s = process_slots_pure cfg inps s :=
  processSlots_eq cfg inps s _ _ hspe (Q_genesis cfg eth1_block_hash eth1_timestamp deposits checkProof s h) (by omega)

/-! ## The executable oracle and its pure form

The theorems above are about the pure stage functions. `oracle_links`: whenever the executable specification function
(the monadic one with the `uint64`/index guards that `zmodel c02` runs as the oracle) accepts, its result IS the pure
stage function's result — proved for `process_slot`, inactivity updates, rewards and penalties (phase0 and altair+;
here the run-time comparison inside the monadic function is what the proof uses), registry updates, eth1-data reset,
effective-balance updates, slashings reset, randao-mix reset, participation rotation, sync-committee updates and the
four upgrades; the rest — justification (`justification_inputs`), `process_slashings`, the historical accumulators, and the
compositions `process_epoch`, `upgrade_maybe`, `process_slots` — in `oracle_links_composed` below. -/
theorem oracle_links (cfg : Config) (agg : AggOracle) (roots : RootOracle) (s s' : State) :
    (process_slot cfg roots s = .ok s' → ∃ root, roots s.slot = some root ∧ s' = process_slot_pure cfg root s) ∧
    (s.fork ≠ .phase0 → process_inactivity_updates cfg s = .ok s' →
      s' = inactivity_stage cfg (get_previous_epoch cfg s) (get_current_epoch cfg s) s) ∧
    (process_rewards_and_penalties cfg s = .ok s' → ∃ atts,
      (s.fork = .phase0 → get_current_epoch cfg s ≠ GENESIS_EPOCH →
        resolve_attestations cfg s (get_previous_epoch cfg s) = .ok atts) ∧
      s' = rewards_stage cfg ⟨atts, [], ZERO32, ZERO32, none⟩ (get_previous_epoch cfg s) (get_current_epoch cfg s) s) ∧
    (process_registry_updates cfg s = .ok s' → s' = registry_stage cfg (get_current_epoch cfg s) s) ∧
    (process_eth1_data_reset cfg s = .ok s' → s' = eth1_stage cfg (get_current_epoch cfg s) s) ∧
    (process_effective_balance_updates cfg s = .ok s' → s' = effective_balance_stage cfg s) ∧
    (process_slashings_reset cfg s = .ok s' → s' = slashings_reset_stage cfg (get_current_epoch cfg s) s) ∧
    (process_randao_mixes_reset cfg s = .ok s' → s' = randao_stage cfg (get_current_epoch cfg s) s) ∧
    (s.fork = .phase0 → process_participation_record_updates s = .ok s' → s' = participation_stage s) ∧
    (s.fork ≠ .phase0 → process_participation_flag_updates s = .ok s' → s' = participation_stage s) ∧
    (s.fork ≠ .phase0 → process_sync_committee_updates cfg agg s = .ok s' →
      ∃ computed, s' = sync_stage cfg ⟨[], [], ZERO32, ZERO32, computed⟩ (get_current_epoch cfg s) s) ∧
    (upgrade_to_altair cfg agg s = .ok s' → ∃ atts c, s' = upgrade_to_altair_pure cfg ⟨atts, some c⟩ s) ∧
    (upgrade_to_bellatrix cfg s = .ok s' → s' = upgrade_to_bellatrix_pure cfg s) ∧
    (upgrade_to_capella cfg s = .ok s' → s' = upgrade_to_capella_pure cfg s) ∧
    (upgrade_to_deneb cfg s = .ok s' → s' = upgrade_to_deneb_pure cfg s) :=
  ⟨Lemmas.process_slot_link cfg roots s s',
   fun hf h => Lemmas.inactivity_stage_link cfg s s' h hf,
   Lemmas.rewards_stage_link cfg s s',
   Lemmas.registry_stage_link cfg s s',
   Lemmas.eth1_stage_link cfg s s',
   Lemmas.effective_balance_stage_link cfg s s',
   Lemmas.slashings_reset_stage_link cfg s s',
   Lemmas.randao_stage_link cfg s s',
   (Lemmas.participation_stage_link s s').1,
   (Lemmas.participation_stage_link s s').2,
   fun hf h => Lemmas.sync_stage_link cfg agg s s' h hf,
   Lemmas.upgrade_altair_link cfg agg s s',
   (Lemmas.upgrade_links cfg s s').1, (Lemmas.upgrade_links cfg s s').2.1, (Lemmas.upgrade_links cfg s s').2.2⟩

/-- `oracle_links_composed`: the remaining links and the compositions. Whenever the executable specification function
accepts, its result is the pure function's: `process_justification_and_finalization` (the balances it weighs are
`total_active_balance_of` / `target_balances_*_pure`; on phase0 states after the first two epochs the attestation
inputs are the state's pending attestations as `resolve_attestations` resolves them; the two roots are the block
roots it looked up), `process_slashings` (its total is `total_active_balance_of`: `get_total_balance`'s checked fold is
the sum), the historical accumulators (roots / summaries by fork), **`process_epoch` = `process_epoch_pure`** (every
stage, the intermediate states threaded: the attestations the rewards step resolves on the state after justification
are those of the start state), **`upgrade_maybe` = `upgrade_maybe_pure`** and **`process_slots` =
`process_slots_pure`** over one `SlotInputs` per processed slot. With `processEpoch_eq` / `processSlots_eq` this makes
every C02 theorem a statement about the oracle `zmodel c02` runs: `processEpoch_oracle_eq`, `processSlots_oracle_eq`.
(Non-vacuity of the hypotheses `… = .ok s'`: these are the very functions the `c02` run executes; every `ok` line of its
spec column — thousands per run, on all five forks — is a state on which they accept. The kernel cannot replay SHA-256
and the well-founded loops by `rfl` (compiled evaluation is not an accepted proof here).) -/
theorem oracle_links_composed (cfg : Config) (agg : AggOracle) (roots : RootOracle) (s s' : State) (target : Nat) :
    (process_justification_and_finalization cfg s = .ok s' → ∃ prevAtts currAtts pr cr,
      (s.fork = .phase0 → ¬ get_current_epoch cfg s ≤ GENESIS_EPOCH + 1 →
        resolve_attestations cfg s (get_previous_epoch cfg s) = .ok prevAtts ∧
        resolve_attestations cfg s (get_current_epoch cfg s) = .ok currAtts) ∧
      s' = justification_stage cfg ⟨prevAtts, currAtts, pr, cr, none⟩ (get_previous_epoch cfg s) (get_current_epoch cfg s) s) ∧
    (process_slashings cfg s = .ok s' → s' = slashings_stage cfg (get_current_epoch cfg s) s) ∧
    ((if s.fork ≥ .capella then process_historical_summaries_update cfg s else process_historical_roots_update cfg s) = .ok s' →
      s' = historical_stage cfg (get_current_epoch cfg s) s) ∧
    (process_epoch cfg agg s = .ok s' → ∃ inp : EpochInputs,
      (s.fork = .phase0 → get_current_epoch cfg s ≠ GENESIS_EPOCH →
        resolve_attestations cfg s (get_previous_epoch cfg s) = .ok inp.prevAtts) ∧
      (s.fork = .phase0 → ¬ get_current_epoch cfg s ≤ GENESIS_EPOCH + 1 →
        resolve_attestations cfg s (get_current_epoch cfg s) = .ok inp.currAtts) ∧
      s' = process_epoch_pure cfg inp s) ∧
    (upgrade_maybe cfg agg s = .ok s' → ∃ inp, s' = upgrade_maybe_pure cfg inp s) ∧
    (process_slots cfg agg roots s target = .ok s' →
      ∃ inps : List SlotInputs, inps.length = target - s.slot ∧ s' = process_slots_pure cfg inps s) :=
  ⟨Lemmas.justification_stage_link cfg s s', Lemmas.slashings_stage_link cfg s s', Lemmas.historical_stage_link cfg s s',
   Lemmas.process_epoch_link cfg agg s s', Lemmas.upgrade_maybe_link cfg agg s s',
   Lemmas.process_slots_link cfg agg roots s s' target⟩

/-- **`processEpoch_eq` about the executable oracle**: whenever the specification's `process_epoch` accepts a state
satisfying `EpochWF`, zrnt's `ProcessEpoch` pipeline (`Impl.processEpochPure`), fed the same oracle inputs, returns
the state the specification returned. -/
theorem processEpoch_oracle_eq (cfg : Config) (agg : AggOracle) (s s' : State) (h : EpochWF cfg s)
    (hs : process_epoch cfg agg s = .ok s') :
    ∃ inp : EpochInputs,
      (s.fork = .phase0 → get_current_epoch cfg s ≠ GENESIS_EPOCH →
        resolve_attestations cfg s (get_previous_epoch cfg s) = .ok inp.prevAtts) ∧
      (s.fork = .phase0 → ¬ get_current_epoch cfg s ≤ GENESIS_EPOCH + 1 →
        resolve_attestations cfg s (get_current_epoch cfg s) = .ok inp.currAtts) ∧
      Impl.processEpochPure cfg inp s = s' := by
  obtain ⟨inp, h1, h2, e⟩ := Lemmas.process_epoch_link cfg agg s s' hs
  exact ⟨inp, h1, h2, by rw [e]; exact processEpoch_eq cfg inp s h⟩

/-- **`processSlots_eq` about the executable oracle**: whenever the specification's `process_slots` (with the fork
upgrades) accepts a start state satisfying the slot-loop invariant `Q`, zrnt's `ProcessSlots` (`Impl.processSlots`: per
slot `ProcessSlot`, `ProcessEpoch` at epoch ends, the slot increment, `UpgradeMaybe`), fed the same oracle inputs,
returns the state the specification returned — over any number of slots, epochs and forks. -/
theorem processSlots_oracle_eq (cfg : Config) (agg : AggOracle) (roots : RootOracle) (s s' : State) (target C N : Nat)
    (hspe : 0 < cfg.SLOTS_PER_EPOCH) (hQ : Lemmas.Q cfg C N (get_current_epoch cfg s) s)
    (hbound : C + (target - s.slot) + N + 1 < FAR_FUTURE_EPOCH)
    (hs : process_slots cfg agg roots s target = .ok s') :
    ∃ inps : List SlotInputs, inps.length = target - s.slot ∧ Impl.processSlots cfg inps s = s' := by
  obtain ⟨inps, hlen, e⟩ := Lemmas.process_slots_link cfg agg roots s s' target hs
  exact ⟨inps, hlen, by rw [e]; exact processSlots_eq cfg inps s C N hspe hQ (by rw [hlen]; exact hbound)⟩

/-- non-vacuity of `processSlots_eq`: a genesis-shaped one-validator state, two slots, `SLOTS_PER_EPOCH = 1`
(so both slots end an epoch) -/
def exampleCfg : Config := let d : Config := default; { d with SLOTS_PER_EPOCH := 1 }

def exampleGenesis : State :=
  let d : State := default
  { d with validators := [⟨default, default, 32, false, 0, 0, FAR_FUTURE_EPOCH, FAR_FUTURE_EPOCH⟩], balances := [32],
           justification_bits := [false, false, false, false] }

example : ∃ (C N : Nat), Lemmas.Q exampleCfg C N (get_current_epoch exampleCfg exampleGenesis) exampleGenesis ∧
    C + 2 + N + 1 < FAR_FUTURE_EPOCH ∧ 0 < exampleCfg.SLOTS_PER_EPOCH := by
  refine ⟨_, _, Q_genesis_like exampleCfg exampleGenesis ?_ rfl rfl rfl rfl rfl rfl rfl rfl, by decide, by decide⟩
  intro v hv
  have : exampleGenesis.validators = [⟨default, default, 32, false, 0, 0, FAR_FUTURE_EPOCH, FAR_FUTURE_EPOCH⟩] := rfl
  rw [this] at hv
  simp only [List.mem_cons, List.not_mem_nil, or_false] at hv
  subst hv
  exact ⟨rfl, rfl, rfl, Or.inl rfl⟩

/-! ## Committees: the LIVE epochs context instead of free "resolved indices"

`rewards_phase0_eq`, `targetStakes_phase0_eq`, `processEpoch_eq` (phase0) and `upgrade_altair_eq` take the pending
attestations resolved (`ResolvedAtt.indices`, `FlagAtt.indices`). The code resolves them by asking the live
`*common.EpochsContext` (`epc.GetBeaconCommittee` + `FilterParticipants`: `Impl.resolveAttsCtx`,
`Impl.resolveFlagAttsCtx` over C07's context model), the specification by `get_beacon_committee`. The theorems of
this section prove the two routes equal, so that the theorems above hold with the committees the live context returns.

`Lemmas.LiveHyps cfg s epc`: `epc` is the context `NewEpochsContext` builds from `s` (C08 `chain_ctx_invariant` /
`live_ctx_answers_eq_zrnt_ctx`: the incrementally maintained context of a running chain answers the same), the configuration is sane (`CfgOK`, at most 255 shuffle rounds, at least
one committee per slot allowed), at most 2^40 validators (`VALIDATOR_REGISTRY_LIMIT`).
`Lemmas.PendingOK cfg s a`: what `process_attestation` checked of `a` when it was included (slot in an epoch the context
covers, committee index below the committee count, one aggregation bit per member, head root still in the state). -/

/-- **C02's `get_beacon_committee` is C07's `Spec.get_beacon_committee`** (the oracle of C07, about which C07 proves
`ctx_committee_eq_spec`, `committees_partition`), on the registry and randao mixes of the same state. -/
theorem committee_eq_C07 {cfg : Config} (hsrc : cfg.SHUFFLE_ROUND_COUNT ≤ 255)
    {s : State} (hv : s.validators.length ≤ 2 ^ 40) {slot index : Nat} {m : List Nat}
    (h : get_beacon_committee cfg s slot index = .ok m) :
    Committees.Spec.get_beacon_committee Spec.hash (Ctx.cfgC cfg) (Zrnt.Proofs.Ctx.valsC s) (Zrnt.Proofs.Ctx.mixesC s) slot index = .ok m :=
  Lemmas.get_beacon_committee_eq_C07 Lemmas.spec_hash_size hsrc hv h

/-- **the committee the LIVE context returns (`epc.GetBeaconCommittee`) is the committee the specification computes**,
and it has no repeated member, for every slot of the previous, current or next epoch and every committee index below
the committee count -/
theorem committee_live_eq {cfg : Config} {s : State} {epc : Committees.Ctx} (L : Lemmas.LiveHyps cfg s epc)
    {slot index : Nat} {m : List Nat}
    (he : compute_epoch_at_slot cfg slot = get_current_epoch cfg s - 1 ∨ compute_epoch_at_slot cfg slot = get_current_epoch cfg s ∨
      compute_epoch_at_slot cfg slot = get_current_epoch cfg s + 1)
    (hi : index < Committees.Spec.get_committee_count_per_slot (Ctx.cfgC cfg) (Zrnt.Proofs.Ctx.valsC s) (compute_epoch_at_slot cfg slot))
    (h : get_beacon_committee cfg s slot index = .ok m) :
    epc.getBeaconCommittee (Ctx.cfgC cfg) slot index = .ok m ∧ m.Nodup :=
  Lemmas.get_beacon_committee_live Lemmas.spec_hash_size L.cfgOK L.rounds L.maxc L.vlen L.ctx he hi h

/-- **phase0 attester data through the live context**: `phase0.ComputeEpochAttesterData` as the code runs it —
`Impl.phase0AttesterData`: build/hold the epochs context, resolve the previous and the current epoch's pending
attestations with `epc.GetBeaconCommittee` + `FilterParticipants`, fill the status array — returns the attester data of
the attestations AS THE SPECIFICATION RESOLVES THEM (`resolve_attestations`: `get_attesting_indices` over
`get_beacon_committee`). With `rewards_phase0_eq` / `targetStakes_phase0_eq` this gives those theorems for the
committees the live context returns: see `rewards_phase0_live_eq`. -/
theorem attesterData_phase0_live_eq {cfg : Config} {s : State} {epc : Committees.Ctx} (L : Lemmas.LiveHyps cfg s epc)
    (hne : get_previous_epoch cfg s ≠ get_current_epoch cfg s)
    (hokP : ∀ a ∈ s.previous_epoch_attestations, Lemmas.PendingOK cfg s a)
    (hokC : ∀ a ∈ s.current_epoch_attestations, Lemmas.PendingOK cfg s a)
    (hrootP : ∃ r, get_block_root cfg s (get_previous_epoch cfg s) = .ok r)
    (hrootC : ∃ r, get_block_root cfg s (get_current_epoch cfg s) = .ok r)
    {prevAtts currAtts : List ResolvedAtt}
    (hp : resolve_attestations cfg s (get_previous_epoch cfg s) = .ok prevAtts)
    (hc : resolve_attestations cfg s (get_current_epoch cfg s) = .ok currAtts) :
    Impl.resolveAttsCtx cfg epc s (get_previous_epoch cfg s) s.previous_epoch_attestations = .ok prevAtts ∧
    Impl.resolveAttsCtx cfg epc s (get_current_epoch cfg s) s.current_epoch_attestations = .ok currAtts ∧
    Impl.phase0AttesterData cfg s =
      .ok (Impl.computeEpochAttesterDataPhase0 cfg s.validators (get_previous_epoch cfg s) prevAtts currAtts) := by
  have h1 := Lemmas.resolve_attestations_live L (get_previous_epoch cfg s) s.previous_epoch_attestations
    (by rw [if_neg hne]) hokP hrootP hp
  have h2 := Lemmas.resolve_attestations_live L (get_current_epoch cfg s) s.current_epoch_attestations
    (by rw [if_pos rfl]) hokC hrootC hc
  refine ⟨h1, h2, ?_⟩
  unfold Impl.phase0AttesterData
  rw [L.ctx]
  simp only [Ctx.liftRes, bind, Except.bind, pure, Except.pure, h1, h2]

/-- **`rewards_phase0_eq` with the committees the live context returns**: the balances the code computes from the
attester data it builds through `epc.GetBeaconCommittee` are the specification's `process_rewards_and_penalties`
balances, the specification resolving the attestations by `get_beacon_committee` — no free resolved-indices input. -/
theorem rewards_phase0_live_eq {cfg : Config} {s : State} {epc : Committees.Ctx} (L : Lemmas.LiveHyps cfg s epc)
    (hne : get_previous_epoch cfg s ≠ get_current_epoch cfg s)
    (hokP : ∀ a ∈ s.previous_epoch_attestations, Lemmas.PendingOK cfg s a)
    (hokC : ∀ a ∈ s.current_epoch_attestations, Lemmas.PendingOK cfg s a)
    (hrootP : ∃ r, get_block_root cfg s (get_previous_epoch cfg s) = .ok r)
    (hrootC : ∃ r, get_block_root cfg s (get_current_epoch cfg s) = .ok r)
    {prevAtts currAtts : List ResolvedAtt}
    (hp : resolve_attestations cfg s (get_previous_epoch cfg s) = .ok prevAtts)
    (hc : resolve_attestations cfg s (get_current_epoch cfg s) = .ok currAtts)
    (finalityDelay : Nat) (hlen : s.balances.length = s.validators.length) :
    ∃ d, Impl.phase0AttesterData cfg s = .ok d ∧
      Impl.processEpochRewardsAndPenaltiesPhase0 cfg s.validators d
          (total_active_balance_of cfg s.validators (get_current_epoch cfg s)) finalityDelay cfg.INACTIVITY_PENALTY_QUOTIENT s.balances =
        process_rewards_and_penalties_phase0_pure cfg s.validators s.balances (get_previous_epoch cfg s) (get_current_epoch cfg s)
          finalityDelay (decide (finalityDelay > cfg.MIN_EPOCHS_TO_INACTIVITY_PENALTY)) prevAtts ∧
      (d.prevTargetStake, d.currTargetStake) = target_balances_phase0_pure cfg s.validators prevAtts currAtts :=
  ⟨_, (attesterData_phase0_live_eq L hne hokP hokC hrootP hrootC hp hc).2.2,
    rewards_phase0_eq cfg s.validators _ _ prevAtts currAtts finalityDelay s.balances hlen,
    targetStakes_phase0_eq cfg s.validators _ prevAtts currAtts⟩

/-- **`processEpoch_eq` with the committees the live context returns**: zrnt's `ProcessEpoch` pipeline fed the pending
attestations as the code resolves them (through `epc.GetBeaconCommittee`) equals the specification's `process_epoch`
fed the attestations as the specification resolves them (`get_beacon_committee`). -/
theorem processEpoch_live_eq {cfg : Config} {s : State} {epc : Committees.Ctx} (L : Lemmas.LiveHyps cfg s epc)
    (hne : get_previous_epoch cfg s ≠ get_current_epoch cfg s)
    (hokP : ∀ a ∈ s.previous_epoch_attestations, Lemmas.PendingOK cfg s a)
    (hokC : ∀ a ∈ s.current_epoch_attestations, Lemmas.PendingOK cfg s a)
    (hrootP : ∃ r, get_block_root cfg s (get_previous_epoch cfg s) = .ok r)
    (hrootC : ∃ r, get_block_root cfg s (get_current_epoch cfg s) = .ok r)
    (inp : EpochInputs)
    (hp : resolve_attestations cfg s (get_previous_epoch cfg s) = .ok inp.prevAtts)
    (hc : resolve_attestations cfg s (get_current_epoch cfg s) = .ok inp.currAtts)
    (h : EpochWF cfg s) :
    ∃ p c, Impl.resolveAttsCtx cfg epc s (get_previous_epoch cfg s) s.previous_epoch_attestations = .ok p ∧
      Impl.resolveAttsCtx cfg epc s (get_current_epoch cfg s) s.current_epoch_attestations = .ok c ∧
      Impl.processEpochPure cfg { inp with prevAtts := p, currAtts := c } s = process_epoch_pure cfg inp s := by
  obtain ⟨h1, h2, _⟩ := attesterData_phase0_live_eq L hne hokP hokC hrootP hrootC hp hc
  exact ⟨_, _, h1, h2, processEpoch_eq cfg inp s h⟩

/-- **`upgrade_altair_eq` with the committees the live context returns**: `altair.TranslateParticipation` resolving the
pre-state's pending attestations through the context of the PRE state (`epc.GetBeaconCommittee`) produces the
participation the specification's `translate_participation` (over `get_attesting_indices(post, …)`) produces, hence
the same altair state. `post` is the state `translate_participation` runs on. -/
theorem upgrade_altair_live_eq {cfg : Config} {pre : State} {epc : Committees.Ctx} (L : Lemmas.LiveHyps cfg pre epc)
    (hok : ∀ a ∈ pre.previous_epoch_attestations, Lemmas.PendingOK cfg (upgrade_to_altair_pure cfg ⟨[], none⟩ pre) a)
    (hroots : ∀ a ∈ pre.previous_epoch_attestations,
      ∃ r, get_block_root cfg (upgrade_to_altair_pure cfg ⟨[], none⟩ pre) a.data.target.epoch = .ok r)
    {atts : List FlagAtt} (sc : Option SyncCommittee)
    (h : resolve_flag_atts cfg (upgrade_to_altair_pure cfg ⟨[], none⟩ pre) pre.previous_epoch_attestations = .ok atts) :
    Impl.resolveFlagAttsCtx cfg epc (upgrade_to_altair_pure cfg ⟨[], none⟩ pre) pre.previous_epoch_attestations = .ok atts ∧
    Impl.upgradeToAltair cfg ⟨atts, sc⟩ pre = upgrade_to_altair_pure cfg ⟨atts, sc⟩ pre := by
  have L' : Lemmas.LiveHyps cfg (upgrade_to_altair_pure cfg ⟨[], none⟩ pre) epc :=
    { cfgOK := L.cfgOK, rounds := L.rounds, maxc := L.maxc, vlen := L.vlen, ctx := L.ctx }
  exact ⟨Lemmas.resolve_flag_atts_live L' _ hok hroots h, upgrade_altair_eq cfg _ pre⟩

/-- non-vacuity of the live-context theorems: a configuration with the committee constants of the "minimal" preset,
a state in slot 1 with one active validator at the maximum effective balance -/
def liveCfg : Config :=
  let d : Config := default
  { d with SLOTS_PER_EPOCH := 8, TARGET_COMMITTEE_SIZE := 4, MAX_COMMITTEES_PER_SLOT := 4, SHUFFLE_ROUND_COUNT := 10,
           EPOCHS_PER_HISTORICAL_VECTOR := 64, MIN_SEED_LOOKAHEAD := 1, MAX_EFFECTIVE_BALANCE := 32, SLOTS_PER_HISTORICAL_ROOT := 8 }

def liveState : State :=
  let d : State := default
  { d with slot := 1, validators := [⟨default, default, 32, false, 0, 0, FAR_FUTURE_EPOCH, FAR_FUTURE_EPOCH⟩], balances := [32],
           block_roots := [ZERO32], randao_mixes := [ZERO32] }

example : ∃ epc, Lemmas.LiveHyps liveCfg liveState epc := by
  have ok : Zrnt.Proofs.Committees.CfgOK (Ctx.cfgC liveCfg) := ⟨by decide, by decide, by decide, by decide, by decide⟩
  obtain ⟨epc, h⟩ := Zrnt.Proofs.C07.newEpochsContext_total (H := Spec.hash) Lemmas.spec_hash_size ok (by decide)
    (Zrnt.Proofs.Ctx.valsC liveState).toArray (Zrnt.Proofs.Ctx.mixesC liveState) liveState.slot (by decide)
    ⟨0, by decide, by decide, by decide⟩ (by decide)
  exact ⟨epc, ok, by decide, by decide, by decide, h⟩


/-- a pending attestation of slot 0, committee 0 (an empty committee: one validator spread over 8 committees) -/
def liveAtt : PendingAttestation :=
  let d : PendingAttestation := default
  { d with aggregation_bits := [] }

example : Lemmas.PendingOK liveCfg liveState liveAtt := by
  refine ⟨Or.inr (Or.inl (by decide)), by decide, ?_, ⟨ZERO32, by decide⟩⟩
  intro m hm
  unfold get_beacon_committee at hm
  obtain ⟨c, hc, hm⟩ := Lemmas.bind_ok _ _ _ hm
  obtain ⟨seed, _, hm⟩ := Lemmas.bind_ok _ _ _ hm
  have hc1 : c = 1 := by
    have : get_committee_count_per_slot liveCfg liveState (compute_epoch_at_slot liveCfg liveAtt.data.slot) = .ok 1 := by decide
    rw [this] at hc; injection hc with hc; exact hc.symm
  subst hc1
  have hl := Lemmas.compute_committee_length hm
  have hn : (get_active_validator_indices liveState (compute_epoch_at_slot liveCfg liveAtt.data.slot)).length = 1 := by decide
  rw [hn] at hl
  rw [hl]
  decide

end Zrnt.Proofs.C02
