import Proofs.Lemmas.ForkChoiceUnknown
import Proofs.Lemmas.ForkChoiceSim
import Proofs.Lemmas.ForkChoiceTotal
import Proofs.Lemmas.ForkChoiceW0Bridge
import Zrnt.ForkChoice.Spec
import Zrnt.ForkChoice.Old
/-!
# C11 — graph queries agree with the inserted tree

Statements about the code-shaped model `Zrnt.ForkChoice` (tie H: modes `fc09`/`fc10`/`fc11`). `WF` is the
structure invariant, `Chain` the block/empty-slot chain structure of the inserted tree
(`Proofs/Lemmas/ForkChoiceChain.lean`); both hold after every step of every admissible history, pruning included
(`C09.inv_weights`: `MInv2` contains them; `chain_onPrune`, `onPrune_wf_of_chain` are the prune steps).

The statements about single queries (`inSubtree_eq_descendant`, `closestToSlot_eq_linear`, `unknown_reported`) are
about any array satisfying the invariants, so they hold before and after pruning; `queries_refine` /
`retained_queries_unchanged` say the same for whole histories against the independent specification, whose tree
after a finalization is the inserted tree restricted to the finalized subtree. Before the rewrite of `OnPrune`
(commit 38d1471) queries after a prune could loop forever: `Old.queries_after_prune_false`.
-/
namespace Zrnt.Proofs.C11
open Zrnt.ForkChoice

def rt (n : Nat) : Root := n * 256 ^ 31
def aa (k : Nat) : Root := 0xaa * 256 ^ 31 + k

/-- `inSubtree_eq_descendant`: on the first nodes of two roots, the index-level `inSubtree` (index ordering +
best-descendant shortcut + transition-parent walk) is exactly fork-choice ancestry of the inserted tree. Without
the `!= NONE` guards (the code before commit 58371ad) this is false: two sibling leaves compared as in-subtree. -/
theorem inSubtreeIdx_eq_descendant (pr : PA) (h : WF pr) (hc : Chain pr) (ra rl : Root) (sa sl a l : Nat)
    (ha : aGet pr.blockSlots ra = some sa) (ia : aGet pr.indices ⟨sa, ra⟩ = some a)
    (hl : aGet pr.blockSlots rl = some sl) (il : aGet pr.indices ⟨sl, rl⟩ = some l) :
    pr.inSubtreeIdx a l = some (false, anc pr.nodes a l) :=
  inSubtreeIdx_eq_anc pr h hc ra rl sa sl a l ha ia hl il

/-- `InSubtree` on roots: unknown iff one of the roots has no node; otherwise fork-choice ancestry between the
first nodes of the two roots (= block-tree descent). -/
theorem inSubtree_eq_descendant (pr : PA) (h : WF pr) (hc : Chain pr) (hu : pr.updated = true) (ra rl : Root) :
    pr.inSubtree ra rl = .ok pr
      (match (aGet pr.blockSlots ra).bind (fun s => aGet pr.indices ⟨s, ra⟩),
             (aGet pr.blockSlots rl).bind (fun s => aGet pr.indices ⟨s, rl⟩) with
       | some a, some l => (false, anc pr.nodes a l)
       | _, _ => (true, false)) :=
  inSubtree_eq_anc pr h hc hu ra rl

/-- non-vacuity (`chainEx`: anchor 1@0 with the fork 2@1 / 3@2): siblings are not in each other's subtree, the
anchor contains both -/
example : WF chainEx ∧ Chain chainEx ∧ chainEx.inSubtreeIdx 2 4 = some (false, false) ∧
    chainEx.inSubtreeIdx 0 4 = some (false, true) := ⟨chainEx_ok.1, chainEx_ok.2, by decide, by decide⟩

/-- `closestToSlot_eq_linear`: the binary search of `ClosestToSlot` returns what a linear scan returns (the
empty-slot nodes of a root are contiguous from its first slot, which follows from the chain structure). -/
theorem closestToSlot_eq_linear (pr : PA) (h : WF pr) (hc : Chain pr) (anchor : Root) (slot : Nat) :
    pr.closestToSlot anchor slot = closestLinear pr anchor slot :=
  Zrnt.ForkChoice.closestToSlot_eq_linear pr (contig_of_chain h hc) h.bs_node anchor slot

example : closestLinear chainEx 1 7 = some ⟨2, 1⟩ ∧ chainEx.closestToSlot 1 7 = some ⟨2, 1⟩ := by decide

/-- `unknown_reported`: a root that was never inserted is reported unknown / as an error by every query. -/
theorem unknown_reported (pr : PA) (h : WF pr) (hc : Chain pr) (r : Root) (hr : aGet pr.blockSlots r = none) :
    pr.getSlot r = none ∧
    (∀ x, ∃ pr', pr.inSubtree r x = .ok pr' (true, false)) ∧
    (∀ x, ∃ pr', pr.inSubtree x r = .ok pr' (true, false)) ∧
    (∀ s, pr.closestToSlot r s = none) ∧
    (∀ s w, pr.canonAtSlot r s w = .err pr) ∧
    (∀ s, isErr (pr.findHead r s) = true) ∧
    (∀ s, isErr (pr.canonicalChain r s) = true) ∧
    (∀ s p sl, isErr (pr.search ⟨s, r⟩ p sl) = true) :=
  Zrnt.ForkChoice.unknown_reported pr h hc r hr

example : aGet chainEx.blockSlots 9 = none := by decide

/-- **queries_total**: no call of ANY history — malformed insertions, finalizations and prunes of malformed arrays
included — is answered `panic`, `blocked` (endless loop or mutex) or `dead` -/
theorem queries_total (ops : List Op) : ∀ x ∈ (run .none ops).2, x.isFatal = false :=
  run_total_all_none ops

/-- **The navigation queries refine the specification, before and after pruning.** For every history inside the
domain (`Admissible`; `UpdateJustified` is unrestricted, so the array may be pruned any number of times): every `GetSlot(root)` answer is the first (lowest) slot at which the root was inserted, or "unknown"; every
`InSubtree(anchor, root)` answer is block-tree descent in the inserted tree, or "unknown" when one of the roots was
never inserted; every `ClosestToSlot(root, slot)` answer is the node itself or the greatest earlier slot with a node
(linear scan), an error for unknown roots and slots before the first one; every `CanonicalChain(anchor, slot)`
answer is the list of transition ancestors from the GHOST head back to the anchor, inclusive (`canonicalChain_eq_walk`)
; every `CanonAtSlot(anchor, slot, withBlock)` answer is the node of the wanted kind at that slot on the canonical
chain — the pre-block (empty-slot) node, the block node, or nil when the slot is empty on that chain; the head
itself for a slot AFTER the head ("the closest we have"), and since the repair 22758ea the wanted kind also AT the
slot of the head (`canonAtSlot_eq_walk`); every `Nodes` answer (the keys of `Indices()`) is the list of nodes of
the inserted tree, after a finalization restricted to the finalized subtree (`nodes_eq`, from
`ForkChoiceNodesOrd.step_ord`); and every `Search` from the first node of a root returns the block nodes in the
anchor's subtree that match the parent-root and/or slot filter — with no option at all the heads, i.e. the blocks
without a child block (since the repair 750a2f5) — split into canonical (ancestors-or-self of the head) and
non-canonical (`search_eq_filter`; the clause `IsSearch op → y = any ∨ x = y` of `AnswersAgree`: only searches
from an anchor that is NOT the first node of its root are left unconstrained, see the comment of `Spec.Abs.search`
for why no contract explains the code's answer there) — exactly the answers of the direct walks in `Spec.lean`
(`Refined` lists the operations covered). -/
theorem queries_refine (ops : List Op) (ha : Admissible .none ops) :
    AnswersAgree ops (run .none ops).2 (Spec.run none ops).2 :=
  (refines_run ops .none none trivial trivial trivial ha).1

/-- non-vacuity -/
def histQ : List Op := [
  .init 4 (rt 1) 0 0 ⟨0, rt 1⟩ ⟨0, rt 1⟩ .absent [32, 32],
  .block (rt 1) (rt 2) 1 0 0, .block (rt 1) (rt 3) 3 0 0, .block (rt 2) (rt 4) 5 0 0,
  .inSub (rt 2) (rt 3), .inSub (rt 1) (rt 4), .inSub (rt 2) (rt 4), .inSub (rt 9) (rt 9), .getSlot (rt 4),
  .getSlot (rt 9), .att 0 (rt 3) 3, .chain (rt 1) 0, .chain (rt 1) 2, .chain (rt 9) 0, .closest (rt 1) 7,
  .closest (rt 2) 0, .closest (rt 9) 3, .canonAt (rt 1) 3 true, .canonAt (rt 1) 2 false, .canonAt (rt 1) 2 true,
  .search ⟨0, rt 1⟩ (some (rt 1)) none, .search ⟨1, rt 2⟩ none (some 5), .search ⟨0, rt 1⟩ none none,
  .canonAt (rt 1) 3 false, .canonAt (rt 1) 3 true, .canonAt (rt 1) 9 false, .nodes]

example : Admissible .none histQ := admissibleB_sound histQ .none (by decide +kernel)
example : (run .none histQ).2 = (Spec.run none histQ).2 := by decide +kernel

/-- **retained_queries_unchanged**: a history that finalizes (and prunes) in the middle. Every query after the prune
answers as the specification does on the tree restricted to the finalized subtree: retained nodes keep their
ancestry, closest nodes and canonical chain; dropped roots are reported unknown; the first slot of the finalized
root becomes the checkpoint slot (its earlier nodes are gone: `GetSlot(02)` is 1 before and 4 after). -/
def histP : List Op := [
  .init 4 (rt 1) 0 0 ⟨0, rt 1⟩ ⟨0, rt 1⟩ .recording [32, 32],
  .block (rt 1) (rt 2) 1 0 0, .block (rt 1) (rt 3) 3 0 0, .block (rt 2) (rt 4) 5 1 1, .block (rt 4) (rt 5) 6 1 1,
  .att 0 (rt 5) 6, .inSub (rt 2) (rt 5), .getSlot (rt 3), .chain (rt 1) 0,
  .justify (rt 4) ⟨1, rt 2⟩ ⟨1, rt 2⟩ (some [32, 32]),
  .inSub (rt 2) (rt 5), .inSub (rt 1) (rt 5), .inSub (rt 2) (rt 3), .getSlot (rt 3), .getSlot (rt 2), .getSlot (rt 1),
  .chain (rt 2) 4, .chain (rt 1) 0, .closest (rt 2) 7, .closest (rt 2) 3, .closest (rt 3) 3,
  .canonAt (rt 2) 5 true, .canonAt (rt 2) 4 false, .search ⟨4, rt 2⟩ (some (rt 2)) none, .search ⟨4, rt 2⟩ none none,
  .nodes, .head]

example : Admissible .none histP := admissibleB_sound histP .none (by decide +kernel)

theorem retained_queries_unchanged (ops : List Op) (ha : Admissible .none ops) :
    AnswersAgree ops (run .none ops).2 (Spec.run none ops).2 ∧ MRef (run .none ops).1 (Spec.run none ops).1 :=
  refines_run ops .none none trivial trivial trivial ha

example : (run .none histP).2 = (Spec.run none histP).2 := by decide +kernel

/-! Before the rewrite of `OnPrune` (commit 38d1471): after a prune interrupted by the sink, `Search` (through
`inSubtree`'s unoffset `pr.nodes[i]`) never returned. `witSearchSpins` is inside the domain, so with the new code
`queries_total` and `queries_refine` apply to it. -/

def witSearchSpins : List Op := [
  .init 2 (rt 2) 0 (rt 0xfe) ⟨0, rt 2⟩ ⟨0, rt 2⟩ (.failAt 1) [33, 0],
  .block (rt 2) (aa 1) 2 0 0, .block (rt 2) (rt 0xfe) 2 1 1, .block (rt 0xfe) (rt 0x80) 4 0 0,
  .block (aa 1) (rt 0x10) 3 0 0, .block (rt 0x80) (rt 1) 6 0 0, .block (rt 0x10) (aa 2) 5 1 1,
  .justify (aa 2) ⟨1, aa 1⟩ ⟨1, aa 1⟩ (some [33, 32]),
  .search ⟨2, aa 1⟩ (some (rt 0x80)) none]

example : Admissible .none witSearchSpins := admissibleB_sound witSearchSpins .none (by decide +kernel)

/-- the old code, replayed on Go before the fix (`corpus/fc11.ops`): `blocked` (a real endless loop) -/
theorem Old.queries_after_prune_false : (Zrnt.ForkChoice.Old.run .none witSearchSpins).2.getLast? = some Ans.blocked := by
  decide +kernel

end Zrnt.Proofs.C11
