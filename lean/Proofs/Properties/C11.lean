import Proofs.Lemmas.ForkChoiceClosest
/-!
# C11 — graph queries agree with the inserted tree

Statements about the code-shaped model `Zrnt.ForkChoice` (tie H: modes `fc09`/`fc10`/`fc11`).
-/
namespace Zrnt.Proofs.C11
open Zrnt.ForkChoice

/-- `ClosestToSlot`'s binary search returns what a linear scan returns, whenever the empty-slot nodes of a
root are contiguous from its first known slot and every root in `blockSlots` has its node. -/
theorem closestToSlot_eq_linear (pr : PA) (hc : Contig pr)
    (hbs : ∀ root s, aGet pr.blockSlots root = some s → (aGet pr.indices ⟨s, root⟩).isSome)
    (anchor : Root) (slot : Nat) :
    pr.closestToSlot anchor slot = closestLinear pr anchor slot :=
  Zrnt.ForkChoice.closestToSlot_eq_linear pr hc hbs anchor slot

end Zrnt.Proofs.C11
