import Proofs.Lemmas.ForkChoiceUnknown
import Proofs.Lemmas.ForkChoiceSim
import Zrnt.ForkChoice.Spec
import Zrnt.ForkChoice.Old
/-!
# C11 — graph queries agree with the inserted tree

Statements about the code-shaped model `Zrnt.ForkChoice` (tie H: modes `fc09`/`fc10`/`fc11`). `WF` is the
structure invariant (proved for every history while nothing is pruned: `C09.inv_structure`), `Chain` the
block/empty-slot chain structure of the inserted tree (`Proofs/Lemmas/ForkChoiceChain.lean`: preserved by
`NewProtoArray`, `ProcessSlot` on a known root at or after its first slot, `ProcessBlock`, and by everything that
only touches weights and links).
-/
namespace Zrnt.Proofs.C11
open Zrnt.ForkChoice

def rt (n : Nat) : Root := n * 256 ^ 31
def aa (k : Nat) : Root := 0xaa * 256 ^ 31 + k

/-- `inSubtree_eq_descendant`: on the first nodes of two roots, the index-level `inSubtree` (index ordering +
best-descendant shortcut + transition-parent walk) is exactly fork-choice ancestry of the inserted tree. Without
the `!= NONE` guards (the code before commit 58371ad) this is false: two sibling leaves compared as in-subtree. -/
theorem inSubtreeIdx_eq_descendant (pr : PA) (h : WF pr) (hc : Chain pr) (ra rl : Root) (sa sl a l : Nat)
    (ha : aGet pr.blockSlots ra = some sa) (ia : aGet pr.indices ⟨sa, ra⟩ = some a)
    (hl : aGet pr.blockSlots rl = some sl) (il : aGet pr.indices ⟨sl, rl⟩ = some l) :
    pr.inSubtreeIdx a l = some (false, anc pr.nodes a l) :=
  inSubtreeIdx_eq_anc pr h hc ra rl sa sl a l ha ia hl il

/-- `InSubtree` on roots: unknown iff one of the roots has no node; otherwise fork-choice ancestry between the
first nodes of the two roots (= block-tree descent). -/
theorem inSubtree_eq_descendant (pr : PA) (h : WF pr) (hc : Chain pr) (hu : pr.updated = true) (ra rl : Root) :
    pr.inSubtree ra rl = .ok pr
      (match (aGet pr.blockSlots ra).bind (fun s => aGet pr.indices ⟨s, ra⟩),
             (aGet pr.blockSlots rl).bind (fun s => aGet pr.indices ⟨s, rl⟩) with
       | some a, some l => (false, anc pr.nodes a l)
       | _, _ => (true, false)) :=
  inSubtree_eq_anc pr h hc hu ra rl

/-- non-vacuity (`chainEx`: anchor 1@0 with the fork 2@1 / 3@2): siblings are not in each other's subtree, the
anchor contains both -/
example : WF chainEx ∧ Chain chainEx ∧ chainEx.inSubtreeIdx 2 4 = some (false, false) ∧
    chainEx.inSubtreeIdx 0 4 = some (false, true) := ⟨chainEx_ok.1, chainEx_ok.2, by decide, by decide⟩

/-- `closestToSlot_eq_linear`: the binary search of `ClosestToSlot` returns what a linear scan returns (the
empty-slot nodes of a root are contiguous from its first slot, which follows from the chain structure). -/
theorem closestToSlot_eq_linear (pr : PA) (h : WF pr) (hc : Chain pr) (anchor : Root) (slot : Nat) :
    pr.closestToSlot anchor slot = closestLinear pr anchor slot :=
  Zrnt.ForkChoice.closestToSlot_eq_linear pr (contig_of_chain h hc) h.bs_node anchor slot

example : closestLinear chainEx 1 7 = some ⟨2, 1⟩ ∧ chainEx.closestToSlot 1 7 = some ⟨2, 1⟩ := by decide

/-- `unknown_reported`: a root that was never inserted is reported unknown / as an error by every query. -/
theorem unknown_reported (pr : PA) (h : WF pr) (hc : Chain pr) (r : Root) (hr : aGet pr.blockSlots r = none) :
    pr.getSlot r = none ∧
    (∀ x, ∃ pr', pr.inSubtree r x = .ok pr' (true, false)) ∧
    (∀ x, ∃ pr', pr.inSubtree x r = .ok pr' (true, false)) ∧
    (∀ s, pr.closestToSlot r s = none) ∧
    (∀ s w, pr.canonAtSlot r s w = .err pr) ∧
    (∀ s, isErr (pr.findHead r s) = true) ∧
    (∀ s, isErr (pr.canonicalChain r s) = true) ∧
    (∀ s p sl, isErr (pr.search ⟨s, r⟩ p sl) = true) :=
  Zrnt.ForkChoice.unknown_reported pr h hc r hr

example : aGet chainEx.blockSlots 9 = none := by decide

/-- every query of every history returns (no panic, no endless loop) while nothing is pruned: the harness machine
is never `dead` and the array stays well formed -/
theorem queries_total_quiet (ops : List Op) (hq : Quiet .none ops) : MInv (run .none ops).1 :=
  inv_structure_quiet ops .none trivial hq

/-- **The navigation queries refine the specification (admissible histories).** For every history inside the
domain: every `GetSlot(root)` answer is the first (lowest) slot at which the root was inserted, or "unknown"; every
`InSubtree(anchor, root)` answer is block-tree descent in the inserted tree, or "unknown" when one of the roots was
never inserted; every `ClosestToSlot(root, slot)` answer is the node itself or the greatest earlier slot with a node
(linear scan), an error for unknown roots and slots before the first one; every `CanonicalChain(anchor, slot)`
answer is the list of transition ancestors from the GHOST head back to the anchor, inclusive (`canonicalChain_eq_walk`)
; every `CanonAtSlot(anchor, slot, withBlock)` answer is the node of the wanted kind at that slot on the canonical
chain (`canonAtSlot_eq_walk`); and every `Search` with a parent-root and/or slot filter from the first node of a root
returns the block nodes in the anchor's subtree that match, split into canonical (ancestors-or-self of the head)
and non-canonical (`search_eq_filter`; the clause `IsSearch op → y = any ∨ x = y` of `AnswersAgree`: searches without
options and from non-first anchors are unconstrained by the specification) — exactly the answers of the direct
walks in `Spec.lean` (`Refined` lists the operations covered). -/
theorem getSlot_inSubtree_refine_partial (ops : List Op) (ha : Admissible .none ops) :
    AnswersAgree ops (run .none ops).2 (Spec.run none ops).2 :=
  (refines_run ops .none none trivial trivial ha).1

/-- non-vacuity -/
def histQ : List Op := [
  .init 4 (rt 1) 0 0 ⟨0, rt 1⟩ ⟨0, rt 1⟩ .absent [32, 32],
  .block (rt 1) (rt 2) 1 0 0, .block (rt 1) (rt 3) 3 0 0, .block (rt 2) (rt 4) 5 0 0,
  .inSub (rt 2) (rt 3), .inSub (rt 1) (rt 4), .inSub (rt 2) (rt 4), .inSub (rt 9) (rt 9), .getSlot (rt 4),
  .getSlot (rt 9), .att 0 (rt 3) 3, .chain (rt 1) 0, .chain (rt 1) 2, .chain (rt 9) 0, .closest (rt 1) 7,
  .closest (rt 2) 0, .closest (rt 9) 3, .canonAt (rt 1) 3 true, .canonAt (rt 1) 2 false, .canonAt (rt 1) 2 true,
  .search ⟨0, rt 1⟩ (some (rt 1)) none, .search ⟨1, rt 2⟩ none (some 5)]

example : Admissible .none histQ := admissibleB_sound histQ .none (by decide +kernel)
example : (run .none histQ).2 = (Spec.run none histQ).2 := by decide +kernel

/- FULL STATEMENT (false of the current code): "before and after pruning" every query answers as the direct walk
   of the inserted tree, `∀ ops, (run .none ops).2 = (Spec.run none ops).2` up to `any`. After a prune interrupted
   by the sink, `Search` (through `inSubtree`'s unoffset `pr.nodes[i]`) never returns: -/

def witSearchSpins : List Op := [
  .init 2 (rt 2) 0 (rt 0xfe) ⟨0, rt 2⟩ ⟨0, rt 2⟩ (.failAt 1) [33, 0],
  .block (rt 2) (aa 1) 2 0 0, .block (rt 2) (rt 0xfe) 2 1 1, .block (rt 0xfe) (rt 0x80) 4 0 0,
  .block (aa 1) (rt 0x10) 3 0 0, .block (rt 0x80) (rt 1) 6 0 0, .block (rt 0x10) (aa 2) 5 1 1,
  .justify (aa 2) ⟨1, aa 1⟩ ⟨1, aa 1⟩ (some [33, 32]),
  .search ⟨2, aa 1⟩ (some (rt 0x80)) none]

/-- replayed on Go (`corpus/fc11.ops`): `blocked` (a real endless loop) -/
theorem Old.queries_after_prune_false : (Zrnt.ForkChoice.Old.run .none witSearchSpins).2.getLast? = some Ans.blocked := by
  decide +kernel

end Zrnt.Proofs.C11
