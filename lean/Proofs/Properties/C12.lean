import Proofs.Lemmas.Gossip
/-!
# C12 — gossip validation returns the p2p specification's verdict

Theorems about the code-shaped model `Zrnt.Gossip.Model` (tied to `/repo/eth2/gossipval` by the `c12`
correspondence mode on every run; `CheckSlotSpan`, `EpochStartSlot`, `SlotToEpoch` are regenerated from the
Go source) and the independent condition lists of `Zrnt.Gossip.Spec`.
-/
namespace Zrnt.Proofs.C12
open Zrnt Zrnt.Gossip Zrnt.Gen.GoFuns Zrnt.Proofs.GossipLemmas

/-! ## Arithmetic helpers equal the specification's formulas -/

/-- `CheckSlotSpan` never panics and always terminates: it is `ok` or `err` for every clock and input. -/
theorem checkSlotSpan_total (f : Int → UInt64) (slot span : UInt64) :
    CheckSlotSpan f slot span = .ok () ∨ CheckSlotSpan f slot span = .err := by
  unfold CheckSlotSpan
  by_cases h0 : slot + span < slot
  · simp [h0]
  · by_cases h1 : slot + span < f (-500)
    · simp [h0, h1]
    · by_cases h2 : slot > f 500 <;> simp [h0, h1, h2]

/-- `CheckSlotSpan` (regenerated from the Go source) accepts exactly
`minSlot ≤ slot + span ∧ slot ≤ maxSlot` with no `uint64` overflow of `slot + span`, for ALL inputs. -/
theorem checkSlotSpan_spec (minS maxS slot span : UInt64) :
    CheckSlotSpan (clock minS maxS) slot span = .ok () ↔
      (slot.toNat + span.toNat < 2 ^ 64 ∧ minS.toNat ≤ slot.toNat + span.toNat ∧ slot.toNat ≤ maxS.toNat) := by
  have hs := slot.toNat_lt
  have hp := span.toNat_lt
  unfold CheckSlotSpan clock
  simp only [UInt64.lt_iff_toNat_lt, UInt64.toNat_add, decide_eq_true_eq, gt_iff_lt]
  by_cases h : slot.toNat + span.toNat < 2 ^ 64
  · rw [Nat.mod_eq_of_lt h]
    have : ¬ (slot.toNat + span.toNat < slot.toNat) := by omega
    simp [this]
    split <;> simp_all <;> omega
  · have : (slot.toNat + span.toNat) % 2 ^ 64 < slot.toNat := by omega
    simp [this, h]

/-- the model's `slotSpanOk` is that predicate -/
theorem slotSpanOk_iff (minS maxS slot span : UInt64) :
    slotSpanOk minS maxS slot span = true ↔
      (slot.toNat + span.toNat < 2 ^ 64 ∧ minS.toNat ≤ slot.toNat + span.toNat ∧ slot.toNat ≤ maxS.toNat) := by
  have h := checkSlotSpan_spec minS maxS slot span
  unfold slotSpanOk
  rcases checkSlotSpan_total (clock minS maxS) slot span with h2 | h2
  · rw [h2]; simpa [h2] using h
  · rw [h2]; simpa [h2] using h

example : slotSpanOk 10 10 10 0 = true ∧ slotSpanOk 11 11 10 0 = false ∧ slotSpanOk 42 43 10 32 = true := by decide

/-- `binary.LittleEndian.Uint64` is the specification's `bytes_to_uint64` -/
theorem le64_eq_spec (b : ByteArray) : (le64 b).toNat = Spec.leNat b := by
  unfold le64 Spec.leNat
  simp only [List.range, List.range.loop, List.foldr]
  have h256 : (256 : UInt64).toNat = 256 := by decide
  have hb : ∀ i, (b.get! i).toUInt64.toNat = (b.get! i).toNat := fun i => by simp
  have hlt : ∀ i, (b.get! i).toNat < 256 := fun i => (b.get! i).toNat_lt
  simp only [UInt64.toNat_add, UInt64.toNat_mul, h256, hb]
  have := hlt 0; have := hlt 1; have := hlt 2; have := hlt 3; have := hlt 4; have := hlt 5; have := hlt 6; have := hlt 7
  simp
  omega

theorem isAggregatorH_eq_spec (n h : UInt64) :
    isAggregatorH n h = Spec.isAggregatorH n.toNat h.toNat := by
  unfold isAggregatorH Spec.isAggregatorH TARGET_AGGREGATORS_PER_COMMITTEE
  have h16 : (16 : UInt64).toNat = 16 := by decide
  have key : (if (n / 16 == 0) = true then (1 : UInt64) else n / 16).toNat = max 1 (n.toNat / 16) := by
    by_cases hz : n / 16 = 0
    · have : n.toNat / 16 = 0 := by
        have := congrArg UInt64.toNat hz
        simpa [UInt64.toNat_div, h16] using this
      simp [hz, this]
    · have hne : n.toNat / 16 ≠ 0 := by
        intro h0; apply hz; apply UInt64.toNat_inj.mp; simp [UInt64.toNat_div, h16, h0]
      have hmax : max 1 (n.toNat / 16) = n.toNat / 16 := by omega
      simp [hz, hmax, UInt64.toNat_div, h16]
  simp only []
  rw [mod_beq_zero, key]

/-- `phase0.IsAggregator` (committee size `n`, any 64-bit size; any selection proof) is the validator
guide's `is_aggregator`: `bytes_to_uint64(hash(sig)[0:8]) % max(1, n // TARGET_AGGREGATORS_PER_COMMITTEE) == 0`. -/
theorem isAggregator_eq_spec (n : UInt64) (proof : ByteArray) :
    isAggregator n proof = Spec.isAggregator n.toNat proof := by
  unfold isAggregator Spec.isAggregator
  rw [isAggregatorH_eq_spec, le64_eq_spec]

theorem isSyncAggregatorH_eq_spec (n h : UInt64) :
    isSyncAggregatorH n h = Spec.isSyncAggregatorH n.toNat h.toNat := by
  unfold isSyncAggregatorH Spec.isSyncAggregatorH SYNC_COMMITTEE_SUBNET_COUNT TARGET_AGGREGATORS_PER_SYNC_SUBCOMMITTEE
  have h16 : (16 : UInt64).toNat = 16 := by decide
  have h4 : (4 : UInt64).toNat = 4 := by decide
  have h1 : (1 : UInt64).toNat = 1 := by decide
  have key : (if n / 4 / 16 < 1 then (1 : UInt64) else n / 4 / 16).toNat = max 1 (n.toNat / 4 / 16) := by
    by_cases hz : n / 4 / 16 < 1
    · have : n.toNat / 4 / 16 = 0 := by
        have := UInt64.lt_iff_toNat_lt.mp hz
        simp [UInt64.toNat_div, h16, h4, h1] at this; omega
      simp [hz, this]
    · have hne : ¬ (n.toNat / 4 / 16 < 1) := by
        intro h0; apply hz; apply UInt64.lt_iff_toNat_lt.mpr; simpa [UInt64.toNat_div, h16, h4, h1] using h0
      have hmax : max 1 (n.toNat / 4 / 16) = n.toNat / 4 / 16 := by omega
      simp [hz, hmax, UInt64.toNat_div, h16, h4]
  simp only []
  rw [mod_beq_zero, key]

/-- `altair.IsSyncCommitteeAggregator` is `is_sync_committee_aggregator` for every `SYNC_COMMITTEE_SIZE` -/
theorem isSyncAggregator_eq_spec (size : UInt64) (proof : ByteArray) :
    isSyncAggregator size proof = Spec.isSyncAggregator size.toNat proof := by
  unfold isSyncAggregator Spec.isSyncAggregator
  rw [isSyncAggregatorH_eq_spec, le64_eq_spec]

/-- `phase0.ComputeSubnetForAttestation` returns `compute_subnet_for_attestation` whenever the committee index
is in range (`index < committees_per_slot`, the only case the specification defines) and
`committees_per_slot * SLOTS_PER_EPOCH + index` fits 64 bits (always: `committees_per_slot ≤ 64`). -/
theorem subnet_eq_spec (spe cps slot idx : UInt64) (hspe : spe ≠ 0) (hidx : idx.toNat < cps.toNat)
    (hov : cps.toNat * spe.toNat + idx.toNat < 2 ^ 64) :
    ∃ s, computeSubnet spe cps slot idx = some s ∧
      s.toNat = Spec.computeSubnetForAttestation spe.toNat cps.toNat slot.toNat idx.toNat := by
  have hspe' : 0 < spe.toNat := toNat_pos_of_ne_zero spe hspe
  have h64 : (64 : UInt64).toNat = 64 := by decide
  have hmod : slot.toNat % spe.toNat < spe.toNat := Nat.mod_lt _ hspe'
  have hle : cps.toNat * (slot.toNat % spe.toNat) ≤ cps.toNat * spe.toNat := Nat.mul_le_mul_left _ (Nat.le_of_lt hmod)
  have hge : cps.toNat ≤ cps.toNat * spe.toNat := Nat.le_mul_of_pos_right _ hspe'
  have hmul : (cps * spe).toNat = cps.toNat * spe.toNat := by
    rw [UInt64.toNat_mul]; apply Nat.mod_eq_of_lt; omega
  have hnot : ¬ (idx ≥ cps * spe) := by
    intro h; have := UInt64.le_iff_toNat_le.mp h; rw [hmul] at this; omega
  refine ⟨(cps * (slot % spe) + idx) % ATTESTATION_SUBNET_COUNT, ?_, ?_⟩
  · unfold computeSubnet; simp [hnot]
  · unfold Spec.computeSubnetForAttestation ATTESTATION_SUBNET_COUNT
    rw [UInt64.toNat_mod, UInt64.toNat_add, UInt64.toNat_mul, UInt64.toNat_mod, h64]
    rw [Nat.mod_eq_of_lt (a := cps.toNat * (slot.toNat % spe.toNat)) (by omega)]
    rw [Nat.mod_eq_of_lt (a := cps.toNat * (slot.toNat % spe.toNat) + idx.toNat) (by omega)]

example : computeSubnet 8 2 26 1 = some 5 ∧ Spec.computeSubnetForAttestation 8 2 26 1 = 5 := by decide

/-- `IndexedSyncCommittee.InSubnet` decides `subnet_id in compute_subnets_for_sync_committee` (for the committee
it is given), for every committee size and list. -/
theorem syncSubnet_eq_spec (size : UInt64) (comm : List UInt64) (v sn : UInt64)
    (hlen : comm.length < 2 ^ 64) :
    inSubnet size comm v sn = (Spec.subnetsForSyncCommittee size.toNat comm v).contains sn.toNat := by
  unfold inSubnet Spec.subnetsForSyncCommittee positionsOf SYNC_COMMITTEE_SUBNET_COUNT
  have h4 : (4 : UInt64).toNat = 4 := by decide
  rw [List.contains_eq_any_beq, List.any_map]
  apply any_congr_mem
  intro i hi
  have hi' : i < comm.length := by
    have := (List.mem_filter.mp hi).1; simpa using this
  have hofNat : (UInt64.ofNat i).toNat = i := by
    simp [UInt64.toNat_ofNat']; omega
  simp only [Function.comp]
  have hd : (UInt64.ofNat i / (size / 4)).toNat = i / (size.toNat / 4) := by
    rw [UInt64.toNat_div, UInt64.toNat_div, hofNat, h4]
  by_cases he : UInt64.ofNat i / (size / 4) = sn
  · have : i / (size.toNat / 4) = sn.toNat := by rw [← hd, he]
    simp [he, this]
  · have : ¬ (sn.toNat = i / (size.toNat / 4)) := by
      intro h; apply he; apply UInt64.toNat_inj.mp; rw [hd, h]
    have h1 : (UInt64.ofNat i / (size / 4) == sn) = false := by simpa using he
    have h2 : (sn.toNat == i / (size.toNat / 4)) = false := by simpa using this
    rw [h1, h2]

end Zrnt.Proofs.C12
