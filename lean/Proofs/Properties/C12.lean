import Proofs.Lemmas.Gossip
/-!
# C12 — gossip validation returns the p2p specification's verdict

Theorems about the code-shaped model `Zrnt.Gossip.Model` (tied to `/repo/eth2/gossipval` by the `c12`
correspondence mode on every run; `CheckSlotSpan`, `EpochStartSlot`, `SlotToEpoch` are regenerated from the
Go source) and the independent condition lists of `Zrnt.Gossip.Spec`.
-/
namespace Zrnt.Proofs.C12
open Zrnt Zrnt.Gossip Zrnt.Gen.GoFuns Zrnt.Proofs.GossipLemmas

/-! ## Arithmetic helpers equal the specification's formulas -/

/-- `CheckSlotSpan` never panics and always terminates: it is `ok` or `err` for every clock and input. -/
theorem checkSlotSpan_total (f : Int → UInt64) (slot span : UInt64) :
    CheckSlotSpan f slot span = .ok () ∨ CheckSlotSpan f slot span = .err := by
  unfold CheckSlotSpan
  by_cases h0 : slot + span < slot
  · simp [h0]
  · by_cases h1 : slot + span < f (-500)
    · simp [h0, h1]
    · by_cases h2 : slot > f 500 <;> simp [h0, h1, h2]

/-- `CheckSlotSpan` (regenerated from the Go source) accepts exactly
`minSlot ≤ slot + span ∧ slot ≤ maxSlot` with no `uint64` overflow of `slot + span`, for ALL inputs. -/
theorem checkSlotSpan_spec (minS maxS slot span : UInt64) :
    CheckSlotSpan (clock minS maxS) slot span = .ok () ↔
      (slot.toNat + span.toNat < 2 ^ 64 ∧ minS.toNat ≤ slot.toNat + span.toNat ∧ slot.toNat ≤ maxS.toNat) := by
  have hs := slot.toNat_lt
  have hp := span.toNat_lt
  unfold CheckSlotSpan clock
  simp only [UInt64.lt_iff_toNat_lt, UInt64.toNat_add, decide_eq_true_eq, gt_iff_lt]
  by_cases h : slot.toNat + span.toNat < 2 ^ 64
  · rw [Nat.mod_eq_of_lt h]
    have : ¬ (slot.toNat + span.toNat < slot.toNat) := by omega
    simp [this]
    split <;> simp_all <;> omega
  · have : (slot.toNat + span.toNat) % 2 ^ 64 < slot.toNat := by omega
    simp [this, h]

/-- the model's `slotSpanOk` is that predicate -/
theorem slotSpanOk_iff (minS maxS slot span : UInt64) :
    slotSpanOk minS maxS slot span = true ↔
      (slot.toNat + span.toNat < 2 ^ 64 ∧ minS.toNat ≤ slot.toNat + span.toNat ∧ slot.toNat ≤ maxS.toNat) := by
  have h := checkSlotSpan_spec minS maxS slot span
  unfold slotSpanOk
  rcases checkSlotSpan_total (clock minS maxS) slot span with h2 | h2
  · rw [h2]; simpa [h2] using h
  · rw [h2]; simpa [h2] using h

example : slotSpanOk 10 10 10 0 = true ∧ slotSpanOk 11 11 10 0 = false ∧ slotSpanOk 42 43 10 32 = true := by decide
/-- the defect repaired by `3768edd`: with span 1 (what the sync-committee validators passed) a message of the
PREVIOUS slot is inside the window at any time of the slot; with span 0 it is not -/
example : slotSpanOk 10 10 9 1 = true ∧ slotSpanOk 10 10 9 0 = false := by decide

/-- `binary.LittleEndian.Uint64` is the specification's `bytes_to_uint64` -/
theorem le64_eq_spec (b : ByteArray) : (le64 b).toNat = Spec.leNat b := by
  unfold le64 Spec.leNat
  simp only [List.range, List.range.loop, List.foldr]
  have h256 : (256 : UInt64).toNat = 256 := by decide
  have hb : ∀ i, (b.get! i).toUInt64.toNat = (b.get! i).toNat := fun i => by simp
  have hlt : ∀ i, (b.get! i).toNat < 256 := fun i => (b.get! i).toNat_lt
  simp only [UInt64.toNat_add, UInt64.toNat_mul, h256, hb]
  have := hlt 0; have := hlt 1; have := hlt 2; have := hlt 3; have := hlt 4; have := hlt 5; have := hlt 6; have := hlt 7
  simp
  omega

theorem isAggregatorH_eq_spec (n h : UInt64) :
    isAggregatorH n h = Spec.isAggregatorH n.toNat h.toNat := by
  unfold isAggregatorH Spec.isAggregatorH TARGET_AGGREGATORS_PER_COMMITTEE
  have h16 : (16 : UInt64).toNat = 16 := by decide
  have key : (if (n / 16 == 0) = true then (1 : UInt64) else n / 16).toNat = max 1 (n.toNat / 16) := by
    by_cases hz : n / 16 = 0
    · have : n.toNat / 16 = 0 := by
        have := congrArg UInt64.toNat hz
        simpa [UInt64.toNat_div, h16] using this
      simp [hz, this]
    · have hne : n.toNat / 16 ≠ 0 := by
        intro h0; apply hz; apply UInt64.toNat_inj.mp; simp [UInt64.toNat_div, h16, h0]
      have hmax : max 1 (n.toNat / 16) = n.toNat / 16 := by omega
      simp [hz, hmax, UInt64.toNat_div, h16]
  simp only []
  rw [mod_beq_zero, key]

/-- `phase0.IsAggregator` (committee size `n`, any 64-bit size; any selection proof) is the validator
guide's `is_aggregator`: `bytes_to_uint64(hash(sig)[0:8]) % max(1, n // TARGET_AGGREGATORS_PER_COMMITTEE) == 0`. -/
theorem isAggregator_eq_spec (n : UInt64) (proof : ByteArray) :
    isAggregator n proof = Spec.isAggregator n.toNat proof := by
  unfold isAggregator Spec.isAggregator
  rw [isAggregatorH_eq_spec, le64_eq_spec]

theorem isSyncAggregatorH_eq_spec (n h : UInt64) :
    isSyncAggregatorH n h = Spec.isSyncAggregatorH n.toNat h.toNat := by
  unfold isSyncAggregatorH Spec.isSyncAggregatorH SYNC_COMMITTEE_SUBNET_COUNT TARGET_AGGREGATORS_PER_SYNC_SUBCOMMITTEE
  have h16 : (16 : UInt64).toNat = 16 := by decide
  have h4 : (4 : UInt64).toNat = 4 := by decide
  have h1 : (1 : UInt64).toNat = 1 := by decide
  have key : (if n / 4 / 16 < 1 then (1 : UInt64) else n / 4 / 16).toNat = max 1 (n.toNat / 4 / 16) := by
    by_cases hz : n / 4 / 16 < 1
    · have : n.toNat / 4 / 16 = 0 := by
        have := UInt64.lt_iff_toNat_lt.mp hz
        simp [UInt64.toNat_div, h16, h4, h1] at this; omega
      simp [hz, this]
    · have hne : ¬ (n.toNat / 4 / 16 < 1) := by
        intro h0; apply hz; apply UInt64.lt_iff_toNat_lt.mpr; simpa [UInt64.toNat_div, h16, h4, h1] using h0
      have hmax : max 1 (n.toNat / 4 / 16) = n.toNat / 4 / 16 := by omega
      simp [hz, hmax, UInt64.toNat_div, h16, h4]
  simp only []
  rw [mod_beq_zero, key]

/-- `altair.IsSyncCommitteeAggregator` is `is_sync_committee_aggregator` for every `SYNC_COMMITTEE_SIZE` -/
theorem isSyncAggregator_eq_spec (size : UInt64) (proof : ByteArray) :
    isSyncAggregator size proof = Spec.isSyncAggregator size.toNat proof := by
  unfold isSyncAggregator Spec.isSyncAggregator
  rw [isSyncAggregatorH_eq_spec, le64_eq_spec]

/-- `phase0.ComputeSubnetForAttestation` returns `compute_subnet_for_attestation` whenever the committee index
is in range (`index < committees_per_slot`, the only case the specification defines) and
`committees_per_slot * SLOTS_PER_EPOCH + index` fits 64 bits (always: `committees_per_slot ≤ 64`). -/
theorem subnet_eq_spec (spe cps slot idx : UInt64) (hspe : spe ≠ 0) (hidx : idx.toNat < cps.toNat)
    (hov : cps.toNat * spe.toNat + idx.toNat < 2 ^ 64) :
    ∃ s, computeSubnet spe cps slot idx = some s ∧
      s.toNat = Spec.computeSubnetForAttestation spe.toNat cps.toNat slot.toNat idx.toNat := by
  have hspe' : 0 < spe.toNat := toNat_pos_of_ne_zero spe hspe
  have h64 : (64 : UInt64).toNat = 64 := by decide
  have hmod : slot.toNat % spe.toNat < spe.toNat := Nat.mod_lt _ hspe'
  have hle : cps.toNat * (slot.toNat % spe.toNat) ≤ cps.toNat * spe.toNat := Nat.mul_le_mul_left _ (Nat.le_of_lt hmod)
  have hge : cps.toNat ≤ cps.toNat * spe.toNat := Nat.le_mul_of_pos_right _ hspe'
  have hmul : (cps * spe).toNat = cps.toNat * spe.toNat := by
    rw [UInt64.toNat_mul]; apply Nat.mod_eq_of_lt; omega
  have hnot : ¬ (idx ≥ cps * spe) := by
    intro h; have := UInt64.le_iff_toNat_le.mp h; rw [hmul] at this; omega
  refine ⟨(cps * (slot % spe) + idx) % ATTESTATION_SUBNET_COUNT, ?_, ?_⟩
  · unfold computeSubnet; simp [hnot]
  · unfold Spec.computeSubnetForAttestation ATTESTATION_SUBNET_COUNT
    rw [UInt64.toNat_mod, UInt64.toNat_add, UInt64.toNat_mul, UInt64.toNat_mod, h64]
    rw [Nat.mod_eq_of_lt (a := cps.toNat * (slot.toNat % spe.toNat)) (by omega)]
    rw [Nat.mod_eq_of_lt (a := cps.toNat * (slot.toNat % spe.toNat) + idx.toNat) (by omega)]

example : computeSubnet 8 2 26 1 = some 5 ∧ Spec.computeSubnetForAttestation 8 2 26 1 = 5 := by decide

/-- `IndexedSyncCommittee.InSubnet` decides `subnet_id in compute_subnets_for_sync_committee` (for the committee
it is given), for every committee size and list. -/
theorem syncSubnet_eq_spec (size : UInt64) (comm : List UInt64) (v sn : UInt64)
    (hlen : comm.length < 2 ^ 64) :
    inSubnet size comm v sn = (Spec.subnetsForSyncCommittee size.toNat comm v).contains sn.toNat := by
  unfold inSubnet Spec.subnetsForSyncCommittee positionsOf SYNC_COMMITTEE_SUBNET_COUNT
  have h4 : (4 : UInt64).toNat = 4 := by decide
  rw [List.contains_eq_any_beq, List.any_map]
  apply any_congr_mem
  intro i hi
  have hi' : i < comm.length := by
    have := (List.mem_filter.mp hi).1; simpa using this
  have hofNat : (UInt64.ofNat i).toNat = i := by
    simp [UInt64.toNat_ofNat']; omega
  simp only [Function.comp]
  have hd : (UInt64.ofNat i / (size / 4)).toNat = i / (size.toNat / 4) := by
    rw [UInt64.toNat_div, UInt64.toNat_div, hofNat, h4]
  by_cases he : UInt64.ofNat i / (size / 4) = sn
  · have : i / (size.toNat / 4) = sn.toNat := by rw [← hd, he]
    simp [he, this]
  · have : ¬ (sn.toNat = i / (size.toNat / 4)) := by
      intro h; apply he; apply UInt64.toNat_inj.mp; rw [hd, h]
    have h1 : (UInt64.ofNat i / (size / 4) == sn) = false := by simpa using he
    have h2 : (sn.toNat == i / (size.toNat / 4)) = false := by simpa using this
    rw [h1, h2]

/-! ## Decision logic, per validator

For every validator `X` with model `validateX`, specification conditions `Spec.XConds` and well-formedness
assumptions `WFX` (stated as structures, each field documented):

* `X_accept_iff_all_conditions`  ACCEPT ⇔ every condition of the p2p specification holds
* `X_violated_never_accept`      a violated condition ⇒ never ACCEPT
* `X_timing_failures_ignore`     not all conditions hold, but every failing one carries the `[IGNORE]` tag
                                 (unknown parent/target, duplicate, outside the clock window, not in the finalized
                                 subtree …) ⇒ the verdict is IGNORE, never REJECT
* `X_marks_only_on_accept`       any `Mark*` call ⇒ the verdict is ACCEPT
-/

/-- generic: from `accept_iff`, a violated condition excludes ACCEPT -/
theorem never_accept_of_iff {v : Verdict} {cs : List Cond} (h : v = .ACCEPT ↔ allHold cs = true)
    {c : Cond} (hc : c ∈ cs) (hv : c.holds = false) : v ≠ .ACCEPT := by
  intro ha
  have := allHold_mem (h.mp ha) hc
  rw [hv] at this; exact Bool.noConfusion this

/-! ### beacon_block -/

/-- `SLOTS_PER_EPOCH ≠ 0`; the finalized epoch's start slot is representable (it is a real block's epoch) -/
structure WFBlock (i : BlockIn) : Prop where
  spe : i.spe ≠ 0
  fin : i.finEpoch.toNat * i.spe.toNat < 2 ^ 64

macro "block_close" : tactic => `(tactic| (
  all_goals (try simp only [Spec.blockConds, Spec.blockExpectedProposer, blockFinish] at *)
  all_goals (try gossip_norm)
  all_goals (try simp only [epochStartSlotOr0_toNat _ _ ‹_› ‹_›] at *)
  all_goals (first
    | (simp_all; done)
    | (simp_all; omega)
    | (cases hs : (BlockIn.sig ‹_›) <;> cases hd : (BlockIn.digestOk ‹_›) <;> simp_all; done)
    | (split <;> simp_all; done)
    | (split <;> simp_all <;> omega)
    | (split <;> (try split) <;> simp_all; done)
    | (split <;> (try split) <;> simp_all <;> omega))))

theorem block_accept_iff_all_conditions (i : BlockIn) (h : WFBlock i) :
    (validateBlock i).verdict = .ACCEPT ↔ allHold (Spec.blockConds i) = true := by
  obtain ⟨hspe, hov⟩ := h
  have hmono := div_mono_not_lt i.parentSlot.toNat i.slot.toNat i.spe.toNat
  fun_cases validateBlock i
  block_close

theorem block_violated_never_accept (i : BlockIn) (h : WFBlock i) (c : Cond) (hc : c ∈ Spec.blockConds i)
    (hv : c.holds = false) : (validateBlock i).verdict ≠ .ACCEPT :=
  never_accept_of_iff (block_accept_iff_all_conditions i h) hc hv

theorem block_timing_failures_ignore (i : BlockIn) (h : WFBlock i) :
    allHold (Spec.blockConds i) = false → onlyTimingFails (Spec.blockConds i) = true →
    (validateBlock i).verdict = .IGNORE := by
  obtain ⟨hspe, hov⟩ := h
  have hmono := div_mono_not_lt i.parentSlot.toNat i.slot.toNat i.spe.toNat
  fun_cases validateBlock i
  block_close

theorem block_marks_only_on_accept (i : BlockIn) :
    (validateBlock i).marks ≠ [] → (validateBlock i).verdict = .ACCEPT := by
  fun_cases validateBlock i
  all_goals (first | (simp_all [ign, rej, acc]; done)
                   | (unfold blockFinish; split <;> (try split) <;> simp_all [ign, rej, acc]))

/-- non-vacuity: an honest block on a consistent view is ACCEPTed and marked; a wrong proposer is REJECTed
without a mark (before repair `831842f` the second record returned REJECT *with* `MarkBlock`). -/
def blockOk : BlockIn :=
  { spe := 8, slot := 26, proposer := 38, maxSlot := 26, seen := false, parentKnown := true, parentSlot := 25,
    finEpoch := 2, finSub := .yes, parentEpc := true, pubkeyKnown := true, digestOk := true, sig := true,
    sameEpochProposer := some 38, towards := true, slotEpc := true, slotProposer := some 38 }
example : WFBlock blockOk := ⟨by decide, by decide⟩
example : (validateBlock blockOk).verdict = .ACCEPT ∧ (validateBlock blockOk).marks.length = 1 := by decide
example : (validateBlock { blockOk with proposer := 39 }).verdict = .REJECT ∧
    (validateBlock { blockOk with proposer := 39 }).marks = [] := by decide

/-! ### beacon_attestation_{subnet_id}

Both fork variants of the specification (`.phase0`: 32-slot propagation range; `.deneb`: EIP-7045) are covered by the
same theorems: the code selects the rule by `DENEB_FORK_EPOCH` (repair `a3eed3e`), `WFAtt.forkOk` ties the node's fork
epoch to the `fork` of the specification. The target is checked to be the *checkpoint block* of its epoch on the
chain of the vote by walking parent links (repair `bd7a82d`). -/

theorem prevEpoch_beq (e c : UInt64) : (c != 0 && e == c - 1) = decide (e.toNat + 1 = c.toNat) := by
  by_cases hc : c = 0
  · subst hc
    have : ¬ (e.toNat + 1 = (0 : UInt64).toNat) := by simp
    simp [this]
  · have hpos := toNat_pos_of_ne_zero c hc
    have h1 : (1 : UInt64).toNat = 1 := by decide
    have hsub : (c - 1).toNat = c.toNat - 1 := by
      rw [UInt64.toNat_sub_of_le]; · rw [h1]
      · exact UInt64.le_iff_toNat_le.mpr (by rw [h1]; omega)
    rw [beq_toNat, hsub]
    have hne : (c != 0) = true := by simpa using hc
    rw [hne, Bool.true_and]
    by_cases h : e.toNat + 1 = c.toNat
    · have h2 : e.toNat = c.toNat - 1 := by omega
      have : (e.toNat == c.toNat - 1) = true := by simpa using h2
      rw [this]; simp [h]
    · have h2 : ¬ (e.toNat = c.toNat - 1) := by omega
      have : (e.toNat == c.toNat - 1) = false := by simpa using h2
      rw [this]; simp [h]

theorem checkpointWalk_eq (T : UInt64) (fuel : Nat) (root slot : UInt64) (ancs : List (UInt64 × UInt64))
    (hf : (((root, slot) :: ancs).takeWhile (fun e => decide (e.2.toNat > T.toNat))).length ≤ fuel) :
    checkpointWalk T fuel root slot ancs = Spec.checkpointOf T.toNat ((root, slot) :: ancs) := by
  induction ancs generalizing root slot fuel with
  | nil =>
    unfold checkpointWalk Spec.checkpointOf
    by_cases h : slot > T
    · have h' : ¬ (slot.toNat ≤ T.toNat) := by have := UInt64.lt_iff_toNat_lt.mp h; omega
      cases fuel <;> simp [h, h']
    · have h' : slot.toNat ≤ T.toNat := by
        have : ¬ T.toNat < slot.toNat := fun hh => h (UInt64.lt_iff_toNat_lt.mpr hh); omega
      simp [h, h']
  | cons a rest ih =>
    obtain ⟨r, s⟩ := a
    unfold checkpointWalk
    by_cases h : slot > T
    · have hgt := UInt64.lt_iff_toNat_lt.mp h
      have h' : ¬ (slot.toNat ≤ T.toNat) := by omega
      rw [List.takeWhile_cons] at hf
      simp only [gt_iff_lt, hgt, decide_true, if_true, List.length_cons] at hf
      cases fuel with
      | zero => omega
      | succ f =>
        have := ih f r s (Nat.le_of_succ_le_succ hf)
        simp only [h, decide_true, Bool.not_true, Bool.false_eq_true, if_false]
        rw [this]
        unfold Spec.checkpointOf
        simp [h']
    · have h' : slot.toNat ≤ T.toNat := by
        have : ¬ T.toNat < slot.toNat := fun hh => h (UInt64.lt_iff_toNat_lt.mpr hh); omega
      unfold Spec.checkpointOf
      simp [h, h']

theorem attSlotOk_eq_spec (fork : Spec.Fork) (spe d mn mx slot : UInt64)
    (hfork : fork = .deneb ↔ d.toNat ≤ mx.toNat / spe.toNat) :
    attSlotOk spe d mn mx slot = Spec.attWindow fork spe.toNat slot.toNat mn.toNat mx.toNat := by
  unfold attSlotOk
  have hlt : (epochOf spe mx < d) ↔ ¬ (d.toNat ≤ mx.toNat / spe.toNat) := by
    unfold epochOf; rw [UInt64.lt_iff_toNat_lt, UInt64.toNat_div]; omega
  cases fork with
  | phase0 =>
    have hn : ¬ (d.toNat ≤ mx.toNat / spe.toNat) := fun h => by have := hfork.mpr h; cases this
    have hd : epochOf spe mx < d := hlt.mpr hn
    have h32 : ATTESTATION_PROPAGATION_SLOT_RANGE.toNat = 32 := by decide
    have hw := slotSpanOk_iff mn mx slot ATTESTATION_PROPAGATION_SLOT_RANGE
    rw [h32] at hw
    simp only [hd, if_true, Spec.attWindow]
    by_cases h : slotSpanOk mn mx slot ATTESTATION_PROPAGATION_SLOT_RANGE = true
    · have := hw.mp h
      simp [h, this]
    · have hn2 := fun hh => h (hw.mpr hh)
      have hf : slotSpanOk mn mx slot ATTESTATION_PROPAGATION_SLOT_RANGE = false := by simpa using h
      rw [hf]; symm; simp only [decide_eq_false_iff_not]; intro hh; exact hn2 ⟨hh.2.2, hh.1, hh.2.1⟩
  | deneb =>
    have hy : d.toNat ≤ mx.toNat / spe.toNat := hfork.mp rfl
    have hd : ¬ (epochOf spe mx < d) := fun h => (hlt.mp h) hy
    simp only [hd, if_false, Spec.attWindow, Spec.epochAt]
    have e1 : ∀ a b : UInt64, (epochOf spe a == epochOf spe b) = decide (a.toNat / spe.toNat = b.toNat / spe.toNat) := by
      intro a b; rw [beq_toNat]; unfold epochOf; rw [UInt64.toNat_div, UInt64.toNat_div]
      by_cases h : a.toNat / spe.toNat = b.toNat / spe.toNat <;> simp [h]
    have e2 : ∀ a b : UInt64, (epochOf spe b != 0 && epochOf spe a == epochOf spe b - 1) =
        decide (a.toNat / spe.toNat + 1 = b.toNat / spe.toNat) := by
      intro a b; rw [prevEpoch_beq]; unfold epochOf; rw [UInt64.toNat_div, UInt64.toNat_div]
    simp only [e1, e2]
    by_cases hs : slot > mx
    · have : ¬ (slot.toNat ≤ mx.toNat) := by have := UInt64.lt_iff_toNat_lt.mp hs; omega
      simp [hs, this]
    · have : slot.toNat ≤ mx.toNat := by
        have : ¬ mx.toNat < slot.toNat := fun hh => hs (UInt64.lt_iff_toNat_lt.mpr hh); omega
      simp only [hs, if_false, this, decide_true, Bool.true_and]
      by_cases h1 : slot.toNat / spe.toNat = mn.toNat / spe.toNat <;>
      by_cases h2 : slot.toNat / spe.toNat + 1 = mn.toNat / spe.toNat <;>
      by_cases h3 : slot.toNat / spe.toNat = mx.toNat / spe.toNat <;>
      by_cases h4 : slot.toNat / spe.toNat + 1 = mx.toNat / spe.toNat <;> simp [h1, h2, h3, h4]

theorem epochStartSlot_ok_val (spe e a : UInt64) (hspe : spe ≠ 0)
    (h : EpochStartSlot (specOf spe) e = .ok a) : a.toNat = e.toNat * spe.toNat := by
  have hov := (epochStartSlot_ok_iff spe e hspe).mp ⟨a, h⟩
  have := epochStartSlotOr0_toNat spe e hspe hov
  unfold epochStartSlotOr0 at this
  rw [h] at this
  exact this

theorem att_walk_of_ok (i : AttIn) (a : UInt64) (hspe : i.spe ≠ 0)
    (hfuel : (((i.blockRoot, i.blockSlot) :: i.ancestors).takeWhile
      (fun e => decide (e.2.toNat > i.targetEpoch.toNat * i.spe.toNat))).length ≤ i.spe.toNat)
    (h : EpochStartSlot (specOf i.spe) i.targetEpoch = .ok a) :
    checkpointWalk a i.spe.toNat i.blockRoot i.blockSlot i.ancestors =
      Spec.checkpointOf (i.targetEpoch.toNat * i.spe.toNat) ((i.blockRoot, i.blockSlot) :: i.ancestors) := by
  have hts := epochStartSlot_ok_val _ _ _ hspe h
  have := checkpointWalk_eq a i.spe.toNat i.blockRoot i.blockSlot i.ancestors (by rw [hts]; exact hfuel)
  rw [hts] at this; exact this

/-- assumptions on the answer record (`T` = start slot of the target epoch, `chain` = voted block and its ancestors):
* `spe`    `SLOTS_PER_EPOCH ≠ 0`
* `ckpt`   chain-view consistency: the checkpoint block of the vote is not reported as a non-ancestor of it
* `fuel`   fewer than `SLOTS_PER_EPOCH` blocks lie between the target epoch's start and the voted block on its chain
           (slots decrease along parent links and the vote is in the target epoch)
* `forkOk` the `fork` of the specification is the fork of the clock's epoch under the node's `DENEB_FORK_EPOCH`
* `bits`   SSZ: every set bit of a bitlist lies below its length
* `cps`    `committees_per_slot * SLOTS_PER_EPOCH + index` fits 64 bits (`committees_per_slot ≤ 64`) -/
structure WFAtt (fork : Spec.Fork) (i : AttIn) : Prop where
  spe : i.spe ≠ 0
  ckpt : Spec.checkpointOf (i.targetEpoch.toNat * i.spe.toNat) ((i.blockRoot, i.blockSlot) :: i.ancestors) = some i.targetRoot →
    i.targetSub ≠ .no
  fuel : (((i.blockRoot, i.blockSlot) :: i.ancestors).takeWhile
    (fun e => decide (e.2.toNat > i.targetEpoch.toNat * i.spe.toNat))).length ≤ i.spe.toNat
  forkOk : fork = .deneb ↔ i.denebEpoch.toNat ≤ i.maxSlot.toNat / i.spe.toNat
  bits : ∀ p ∈ i.setBits, p < i.bitLen
  cps : i.cps.toNat * i.spe.toNat + i.index.toNat < 2 ^ 64

theorem att_marks_only_on_accept (i : AttIn) :
    (validateAttestation i).marks ≠ [] → (validateAttestation i).verdict = .ACCEPT := by
  fun_cases validateAttestation i
  all_goals (try (have hfc := finCheck_some ‹finCheck _ _ _ _ _ = some _›; subst hfc))
  all_goals (simp_all [ign, rej, acc])

theorem att_accept_iff_all_conditions (fork : Spec.Fork) (i : AttIn) (h : WFAtt fork i) :
    (validateAttestation i).verdict = .ACCEPT ↔ allHold (Spec.attConds fork i) = true := by
  obtain ⟨hspe, hck, hfuel, hfork, hbits, hcps⟩ := h
  have hwin := attSlotOk_eq_spec fork i.spe i.denebEpoch i.minSlot i.maxSlot i.slot hfork
  have hess := epochStartSlot_ok_iff i.spe i.targetEpoch hspe
  have hsub : i.index.toNat < i.cps.toNat → _ := fun hi => subnet_eq_spec i.spe i.cps i.slot i.index hspe hi hcps
  have hone : i.setBits.length = 1 → ∃ p, i.setBits = [p] := List.length_eq_one_iff.mp
  have hslot := i.slot.toNat_lt
  have hdm := Nat.div_mul_le_self i.slot.toNat i.spe.toNat
  fun_cases validateAttestation i
  all_goals (try (have hwalk := att_walk_of_ok i _ hspe hfuel ‹EpochStartSlot _ _ = Res.ok _›))
  all_goals (try simp only [hwalk] at *)
  all_goals (try (have hfs := finCheck_some_cond ‹finCheck _ _ _ _ _ = some _›))
  all_goals (try (have hfc := finCheck_some ‹finCheck _ _ _ _ _ = some _›; subst hfc))
  all_goals (try (have hfn := (finCheck_none_iff _ _ _ _ _).mp ‹finCheck _ _ _ _ _ = none›))
  all_goals (try simp only [Spec.attConds, Spec.targetIsCheckpoint] at *)
  all_goals (try gossip_norm)
  all_goals (first | (simp_all; done) | (simp_all; omega) | (rcases hfn with hfn | hfn <;> simp_all <;> omega) | skip)
  all_goals (simp_all)
  all_goals (intros; first | omega | (simp_all; omega) | (cases hb : i.blockIsFin <;> simp_all [finCheck, UInt64.lt_iff_toNat_lt] <;> omega))

theorem att_violated_never_accept (fork : Spec.Fork) (i : AttIn) (h : WFAtt fork i) (c : Cond)
    (hc : c ∈ Spec.attConds fork i) (hv : c.holds = false) : (validateAttestation i).verdict ≠ .ACCEPT :=
  never_accept_of_iff (att_accept_iff_all_conditions fork i h) hc hv

theorem att_timing_failures_ignore (fork : Spec.Fork) (i : AttIn) (h : WFAtt fork i) :
    allHold (Spec.attConds fork i) = false → onlyTimingFails (Spec.attConds fork i) = true →
    (validateAttestation i).verdict = .IGNORE := by
  obtain ⟨hspe, hck, hfuel, hfork, hbits, hcps⟩ := h
  have hwin := attSlotOk_eq_spec fork i.spe i.denebEpoch i.minSlot i.maxSlot i.slot hfork
  have hess := epochStartSlot_ok_iff i.spe i.targetEpoch hspe
  have hsub : i.index.toNat < i.cps.toNat → _ := fun hi => subnet_eq_spec i.spe i.cps i.slot i.index hspe hi hcps
  have hone : i.setBits.length = 1 → ∃ p, i.setBits = [p] := List.length_eq_one_iff.mp
  have hslot := i.slot.toNat_lt
  have hdm := Nat.div_mul_le_self i.slot.toNat i.spe.toNat
  fun_cases validateAttestation i
  all_goals (try (have hwalk := att_walk_of_ok i _ hspe hfuel ‹EpochStartSlot _ _ = Res.ok _›))
  all_goals (try simp only [hwalk] at *)
  all_goals (try (have hfs := finCheck_some_cond ‹finCheck _ _ _ _ _ = some _›))
  all_goals (try (have hfc := finCheck_some ‹finCheck _ _ _ _ _ = some _›; subst hfc))
  all_goals (try (have hfn := (finCheck_none_iff _ _ _ _ _).mp ‹finCheck _ _ _ _ _ = none›))
  all_goals (try simp only [Spec.attConds, Spec.targetIsCheckpoint] at *)
  all_goals (try gossip_norm)
  all_goals (first | (simp_all; done) | (simp_all; omega) | (rcases hfn with hfn | hfn <;> simp_all <;> omega) | skip)
  all_goals (simp_all)
  all_goals (intros; first | omega | (simp_all; omega) | (cases hb : i.blockIsFin <;> simp_all [finCheck, UInt64.lt_iff_toNat_lt] <;> omega))

/-- an honest attestation on a consistent view (non-vacuity of `WFAtt`) -/
def attOk : AttIn :=
  { spe := 8, slot := 26, index := 1, targetEpoch := 3, bitLen := 4, setBits := [2], subnet := 5, blockIsFin := false,
    minSlot := 26, maxSlot := 26, bad := false, blockKnown := true, blockSlot := 25, targetSub := .yes,
    blockRoot := 1, targetRoot := 3, ancestors := [(3, 24)], denebEpoch := 18446744073709551615,
    finSub := .yes, finEpoch := 1, towards := true, epc := true, cps := 2,
    committee := [22, 4, 46, 43], seen := false, domainOk := true, sig := true }
example : WFAtt .phase0 attOk := ⟨by decide, by decide, by decide, by decide, by decide, by decide⟩
example : (validateAttestation attOk).verdict = .ACCEPT ∧ allHold (Spec.attConds .phase0 attOk) = true := by decide

/-- the defect repaired by `bd7a82d`: the target (root 3, slot 23) is an ancestor of the voted block, but block 7 at
slot 24 is the checkpoint block of epoch 3 — the `[REJECT]` condition fails and the code now REJECTs (it ACCEPTed). -/
def attOldTarget : AttIn := { attOk with ancestors := [(7, 24), (3, 23)] }
example : WFAtt .phase0 attOldTarget := ⟨by decide, by decide, by decide, by decide, by decide, by decide⟩
example : (validateAttestation attOldTarget).verdict = .REJECT ∧ allHold (Spec.attConds .phase0 attOldTarget) = false := by
  decide

/-- the defect repaired by `a3eed3e`, both directions. `SLOTS_PER_EPOCH = 8`: an attestation 20 slots old is two epochs
old — inside the phase0 range, outside the deneb window; with `DENEB_FORK_EPOCH = 0` the code now IGNOREs it. -/
def attDenebOld : AttIn := { attOk with minSlot := 46, maxSlot := 46, denebEpoch := 0 }
example : WFAtt .deneb attDenebOld := ⟨by decide, by decide, by decide, by decide, by decide, by decide⟩
example : (validateAttestation attDenebOld).verdict = .IGNORE ∧ allHold (Spec.attConds .deneb attDenebOld) = false := by decide
/-- `SLOTS_PER_EPOCH = 32`: an honest attestation of the previous epoch that is 40 slots old satisfies every deneb
condition; the code now ACCEPTs it (it IGNOREd it). -/
def attDenebPrev : AttIn :=
  { attOk with spe := 32, slot := 64, targetEpoch := 2, index := 0, cps := 1, subnet := 0, bitLen := 2, setBits := [1],
               committee := [7, 9], blockSlot := 63, blockRoot := 1, targetRoot := 1, ancestors := [], finEpoch := 0,
               minSlot := 104, maxSlot := 104, denebEpoch := 0 }
example : WFAtt .deneb attDenebPrev := ⟨by decide, by decide, by decide, by decide, by decide, by decide⟩
example : (validateAttestation attDenebPrev).verdict = .ACCEPT ∧ allHold (Spec.attConds .deneb attDenebPrev) = true := by
  decide

/-! ### beacon_aggregate_and_proof -/

theorem selCheck_cases (i : AggIn) :
    (selectionProofCheck i = some true ↔
      (i.aggregator.toNat < i.nVals.toNat ∧ i.commOk = true ∧ i.committee.contains i.aggregator = true ∧
        isAggregator (UInt64.ofNat i.committee.length) i.selProof = true ∧ i.selDecodes = true ∧ i.selSig = true)) ∧
    (selectionProofCheck i = none ↔
      (i.aggregator.toNat < i.nVals.toNat ∧ i.commOk = true ∧ i.committee.contains i.aggregator = true ∧
        isAggregator (UInt64.ofNat i.committee.length) i.selProof = true ∧ i.selDecodes = false)) := by
  unfold selectionProofCheck
  by_cases h1 : i.aggregator < i.nVals <;> cases h2 : i.commOk <;> cases h3 : i.committee.contains i.aggregator <;>
    cases h4 : isAggregator (UInt64.ofNat i.committee.length) i.selProof <;> cases h5 : i.selDecodes <;>
    cases h6 : i.selSig <;> simp_all [UInt64.lt_iff_toNat_lt]

/-- assumptions on the answer record: as `WFAtt` (`ckpt`, `fuel`, `forkOk`), and
* `tslot`    the target epoch's start slot is representable
* `members`  committee members are validators of the registry
* `decodes`  oracle consistency: a valid signature is a decodable one
* `len`      the committee length fits 64 bits -/
structure WFAgg (fork : Spec.Fork) (i : AggIn) : Prop where
  spe : i.spe ≠ 0
  tslot : i.targetEpoch.toNat * i.spe.toNat < 2 ^ 64
  ckpt : Spec.checkpointOf (i.targetEpoch.toNat * i.spe.toNat) ((i.blockRoot, i.blockSlot) :: i.ancestors) = some i.targetRoot →
    i.targetSub ≠ .no
  fuel : (((i.blockRoot, i.blockSlot) :: i.ancestors).takeWhile
    (fun e => decide (e.2.toNat > i.targetEpoch.toNat * i.spe.toNat))).length ≤ i.spe.toNat
  forkOk : fork = .deneb ↔ i.denebEpoch.toNat ≤ i.maxSlot.toNat / i.spe.toNat
  members : ∀ v ∈ i.committee, v.toNat < i.nVals.toNat
  decodes : i.selSig = true → i.selDecodes = true
  len : i.committee.length < 2 ^ 64

theorem agg_walk (i : AggIn) (hspe : i.spe ≠ 0) (hov : i.targetEpoch.toNat * i.spe.toNat < 2 ^ 64)
    (hfuel : (((i.blockRoot, i.blockSlot) :: i.ancestors).takeWhile
      (fun e => decide (e.2.toNat > i.targetEpoch.toNat * i.spe.toNat))).length ≤ i.spe.toNat) :
    checkpointWalk (epochStartSlotOr0 i.spe i.targetEpoch) i.spe.toNat i.blockRoot i.blockSlot i.ancestors =
      Spec.checkpointOf (i.targetEpoch.toNat * i.spe.toNat) ((i.blockRoot, i.blockSlot) :: i.ancestors) := by
  have hts := epochStartSlotOr0_toNat i.spe i.targetEpoch hspe hov
  have := checkpointWalk_eq (epochStartSlotOr0 i.spe i.targetEpoch) i.spe.toNat i.blockRoot i.blockSlot i.ancestors
    (by rw [hts]; exact hfuel)
  rw [hts] at this; exact this

theorem agg_marks_only_on_accept (i : AggIn) :
    (validateAggregate i).marks ≠ [] → (validateAggregate i).verdict = .ACCEPT := by
  fun_cases validateAggregate i
  all_goals (try (have hfc := finCheck_some ‹finCheck _ _ _ _ _ = some _›; subst hfc))
  all_goals (simp_all [ign, rej, acc])

set_option maxHeartbeats 1000000 in
theorem agg_timing_failures_ignore (fork : Spec.Fork) (i : AggIn) (h : WFAgg fork i) :
    allHold (Spec.aggConds fork i) = false → onlyTimingFails (Spec.aggConds fork i) = true →
    (validateAggregate i).verdict = .IGNORE := by
  obtain ⟨hspe, hts, hck, hfuel, hfork, hmem, hdec, hlen⟩ := h
  have hwin := attSlotOk_eq_spec fork i.spe i.denebEpoch i.minSlot i.maxSlot i.slot hfork
  have hwalk := agg_walk i hspe hts hfuel
  have hsel := selCheck_cases i
  have hagg := isAggregator_eq_spec (UInt64.ofNat i.committee.length) i.selProof
  have hofn : (UInt64.ofNat i.committee.length).toNat = i.committee.length := by
    simp [UInt64.toNat_ofNat']; omega
  rw [hofn] at hagg
  have hmem' : i.committee.contains i.aggregator = true → i.aggregator.toNat < i.nVals.toNat := by
    intro hc; exact hmem _ (List.contains_iff_mem.mp hc)
  fun_cases validateAggregate i
  all_goals (try simp only [hwalk] at *)
  all_goals (try (have hfs := finCheck_some_cond ‹finCheck _ _ _ _ _ = some _›))
  all_goals (try (have hfc := finCheck_some ‹finCheck _ _ _ _ _ = some _›; subst hfc))
  all_goals (try (have hfn := (finCheck_none_iff _ _ _ _ _).mp ‹finCheck _ _ _ _ _ = none›))
  all_goals (try simp only [Spec.aggConds, Spec.targetIsCheckpoint] at *)
  all_goals (try gossip_norm)
  all_goals (first | (intros; rfl) | (simp_all; done) | (simp_all; omega) | (rcases hfn with hfn | hfn <;> simp_all <;> omega))

set_option maxHeartbeats 1600000 in
theorem agg_accept_iff_all_conditions (fork : Spec.Fork) (i : AggIn) (h : WFAgg fork i) :
    (validateAggregate i).verdict = .ACCEPT ↔ allHold (Spec.aggConds fork i) = true := by
  obtain ⟨hspe, hts, hck, hfuel, hfork, hmem, hdec, hlen⟩ := h
  have hwin := attSlotOk_eq_spec fork i.spe i.denebEpoch i.minSlot i.maxSlot i.slot hfork
  have hwalk := agg_walk i hspe hts hfuel
  have hsel := selCheck_cases i
  have hagg := isAggregator_eq_spec (UInt64.ofNat i.committee.length) i.selProof
  have hofn : (UInt64.ofNat i.committee.length).toNat = i.committee.length := by
    simp [UInt64.toNat_ofNat']; omega
  rw [hofn] at hagg
  have hmem' : i.committee.contains i.aggregator = true → i.aggregator.toNat < i.nVals.toNat := by
    intro hc; exact hmem _ (List.contains_iff_mem.mp hc)
  have hpos : ¬ i.setBits = [] → 1 ≤ i.setBits.length := fun h => List.length_pos_iff.mpr h
  fun_cases validateAggregate i
  all_goals (try simp only [hwalk] at *)
  all_goals (try (have hfs := finCheck_some_cond ‹finCheck _ _ _ _ _ = some _›))
  all_goals (try (have hfc := finCheck_some ‹finCheck _ _ _ _ _ = some _›; subst hfc))
  all_goals (try (have hfn := (finCheck_none_iff _ _ _ _ _).mp ‹finCheck _ _ _ _ _ = none›))
  all_goals (try simp only [Spec.aggConds, Spec.targetIsCheckpoint] at *)
  all_goals (try gossip_norm)
  case case1 =>
    have hw : Spec.attWindow fork i.spe.toNat i.slot.toNat i.minSlot.toNat i.maxSlot.toNat = false := by
      rw [← hwin]; simpa using ‹(!attSlotOk i.spe i.denebEpoch i.minSlot i.maxSlot i.slot) = true›
    refine ⟨fun h => Verdict.noConfusion h, fun hall => ?_⟩
    simp only [Bool.and_eq_true] at hall
    rw [hw] at hall; exact Bool.noConfusion hall.1
  all_goals (first | (simp_all; done) | (simp_all; omega) | (rcases hfn with hfn | hfn <;> simp_all <;> omega) | skip)
  all_goals (cases hb : i.blockIsFin <;> simp_all [finCheck, UInt64.lt_iff_toNat_lt] <;>
    (first | omega | (intros; have hm := hmem _ ‹i.aggregator ∈ i.committee›; simp_all)))

theorem agg_violated_never_accept (fork : Spec.Fork) (i : AggIn) (h : WFAgg fork i) (c : Cond)
    (hc : c ∈ Spec.aggConds fork i) (hv : c.holds = false) : (validateAggregate i).verdict ≠ .ACCEPT :=
  never_accept_of_iff (agg_accept_iff_all_conditions fork i h) hc hv

/-- an honest aggregate-and-proof (values of an op line of mode `c12`): non-vacuity of `WFAgg` -/
def aggOk : AggIn :=
  { spe := 8, slot := 27, index := 0, targetEpoch := 3, aggregator := 9, bitLen := 4, setBits := [0, 2],
    blockIsFin := false, minSlot := 27, maxSlot := 27, seenAggregator := false, seenAggregate := false,
    aggRoot := "859e", bad := false, blockKnown := true, blockSlot := 26, targetSub := .yes, blockRoot := 1,
    targetRoot := 3, ancestors := [(3, 24)], denebEpoch := 18446744073709551615, finSub := .yes,
    finEpoch := 1, towards := true, epc := true, stateOk := true, nVals := 64, commOk := true,
    committee := [9, 57, 25, 63], selProof := ByteArray.mk (Array.replicate 96 7), selDecodes := true, selSig := true,
    outerSig := true, outerSigTrunc := false, maxPerComm := 2048, aggSig := true }
example : WFAgg .phase0 aggOk :=
  ⟨by decide, by decide, by decide, by decide, by decide, by decide, by decide, by decide⟩
example : (validateAggregate aggOk).verdict = .ACCEPT := by decide +kernel
/-- before repair `aa93b5d` the code consulted `outerSigTrunc`: this honest record was REJECTed -/
example : aggOk.outerSig = true ∧ aggOk.outerSigTrunc = false := by decide
/-- repair `bd7a82d` for aggregates: an older-ancestor target is REJECTed -/
example : (validateAggregate { aggOk with ancestors := [(7, 24), (3, 23)] }).verdict = .REJECT := by decide +kernel

/-! ### voluntary_exit -/

/-- `activation_epoch + SHARD_COMMITTEE_PERIOD` fits 64 bits (an active validator's activation epoch is at most the
current epoch; the period is a small constant) -/
structure WFExit (i : ExitIn) : Prop where
  shard : i.activation.toNat + i.shardPeriod.toNat < 2 ^ 64

/-- `phase0.ValidateVoluntaryExit` succeeds exactly on the conditions of `process_voluntary_exit` -/
theorem exitValid_iff (i : ExitIn) (h : WFExit i) : exitValid i = true ↔
    (i.vindex.toNat < i.nVals.toNat ∧ i.activation.toNat ≤ i.curEpoch.toNat ∧ i.curEpoch.toNat < i.valExit.toNat ∧
      i.valExit.toNat = 2 ^ 64 - 1 ∧ i.exitEpoch.toNat ≤ i.curEpoch.toNat ∧
      i.activation.toNat + i.shardPeriod.toNat ≤ i.curEpoch.toNat ∧ i.sig = true) := by
  obtain ⟨hsh⟩ := h
  have hmod : (i.activation.toNat + i.shardPeriod.toNat) % 2 ^ 64 = i.activation.toNat + i.shardPeriod.toNat :=
    Nat.mod_eq_of_lt hsh
  have hfar : FAR_FUTURE_EPOCH.toNat = 2 ^ 64 - 1 := by decide
  fun_cases exitValid i
  all_goals (try gossip_norm)
  all_goals (try simp only [UInt64.toNat_add, hmod, hfar] at *)
  all_goals (first | (simp_all; done) | (simp_all; omega))

theorem exit_accept_iff_all_conditions (i : ExitIn) (h : WFExit i) :
    (validateExit i).verdict = .ACCEPT ↔ allHold (Spec.exitConds i) = true := by
  have hv := exitValid_iff i h
  fun_cases validateExit i
  all_goals (try simp only [Spec.exitConds, Spec.isActive, Spec.FAR] at *)
  all_goals (try gossip_norm)
  all_goals (first | (simp_all; done) | (simp_all; omega) | (cases hx : exitValid i <;> simp_all <;> omega) | (cases hs : i.sig <;> cases hx : exitValid i <;> simp_all <;> intros <;> simp_all <;> omega))

theorem exit_timing_failures_ignore (i : ExitIn) (h : WFExit i) :
    allHold (Spec.exitConds i) = false → onlyTimingFails (Spec.exitConds i) = true →
    (validateExit i).verdict = .IGNORE := by
  have hv := exitValid_iff i h
  fun_cases validateExit i
  all_goals (try simp only [Spec.exitConds, Spec.isActive, Spec.FAR] at *)
  all_goals (try gossip_norm)
  all_goals (first | (simp_all; done) | (simp_all; omega) | (cases hx : exitValid i <;> simp_all <;> omega) | (cases hs : i.sig <;> cases hx : exitValid i <;> simp_all <;> intros <;> simp_all <;> omega))

theorem exit_marks_only_on_accept (i : ExitIn) :
    (validateExit i).marks ≠ [] → (validateExit i).verdict = .ACCEPT := by
  fun_cases validateExit i
  all_goals (simp_all [ign, rej, acc])

theorem exit_violated_never_accept (i : ExitIn) (h : WFExit i) (c : Cond) (hc : c ∈ Spec.exitConds i)
    (hv : c.holds = false) : (validateExit i).verdict ≠ .ACCEPT :=
  never_accept_of_iff (exit_accept_iff_all_conditions i h) hc hv

def exitOk : ExitIn :=
  { vindex := 5, exitEpoch := 3, seen := false, headOk := true, nVals := 64, curEpoch := 3, activation := 0,
    valExit := 18446744073709551615, shardPeriod := 2, sig := true }
example : WFExit exitOk := ⟨by decide⟩
example : (validateExit exitOk).verdict = .ACCEPT ∧ allHold (Spec.exitConds exitOk) = true := by decide

/-! ### proposer_slashing -/

theorem isSlashable_eq_spec (sl : Bool) (a w e : UInt64) :
    isSlashable sl a w e = Spec.isSlashableValidator sl a.toNat w.toNat e.toNat := by
  unfold isSlashable Spec.isSlashableValidator
  cases sl <;> simp [UInt64.lt_iff_toNat_lt, UInt64.le_iff_toNat_le]
  by_cases h1 : e.toNat < a.toNat <;> by_cases h2 : w.toNat ≤ e.toNat <;> simp [h1, h2] <;> omega

/-- the model's `isSlashable` IS the code: `phase0.IsSlashable`, regenerated from the Go source on every run
(`Zrnt.Gen.GoFuns.IsSlashable`), returns exactly it on every validator record and epoch, and never fails -/
theorem isSlashable_eq_regenerated (v : Zrnt.Gen.GoFuns.ValidatorRec) (e : UInt64) :
    Zrnt.Gen.GoFuns.IsSlashable v e = .ok (isSlashable v.Slashed v.ActivationEpoch v.WithdrawableEpoch e) := by
  unfold Zrnt.Gen.GoFuns.IsSlashable isSlashable
  cases hs : v.Slashed
  · by_cases h1 : v.ActivationEpoch > e
    · simp [h1]
    · by_cases h2 : v.WithdrawableEpoch ≤ e <;> simp [h1, h2]
  · simp

theorem pslashShapeOk_iff (i : PSlashIn) : pslashShapeOk i = true ↔
    (i.slot1.toNat = i.slot2.toNat ∧ i.prop1.toNat = i.prop2.toNat ∧ i.headersEqual = false) := by
  fun_cases pslashShapeOk i
  all_goals (try gossip_norm)
  all_goals (simp_all)

theorem pslashValid_iff (i : PSlashIn) : pslashValid i = true ↔
    (pslashShapeOk i = true ∧ i.prop1.toNat < i.nVals.toNat ∧
      Spec.isSlashableValidator i.slashed i.activation.toNat i.withdrawable.toNat i.curEpoch.toNat = true ∧
      i.sig1 = true ∧ i.sig2 = true) := by
  have hs := isSlashable_eq_spec i.slashed i.activation i.withdrawable i.curEpoch
  fun_cases pslashValid i
  all_goals (try gossip_norm)
  all_goals (first | (simp_all; done) | (simp_all; omega) | (simp_all; intros; omega))

theorem pslash_accept_iff_all_conditions (i : PSlashIn) :
    (validateProposerSlashing i).verdict = .ACCEPT ↔ allHold (Spec.pslashConds i) = true := by
  have hv := pslashValid_iff i
  have hsh := pslashShapeOk_iff i
  fun_cases validateProposerSlashing i
  all_goals (try simp only [Spec.pslashConds] at *)
  all_goals (try gossip_norm)
  all_goals (first | (simp_all; done) | (simp_all; omega) | (cases hx : pslashValid i <;> simp_all <;> omega) | (cases hx : pslashValid i <;> simp_all <;> intros <;> simp_all <;> omega) | (cases h1 : i.sig1 <;> cases h2 : i.sig2 <;> cases h3 : Spec.isSlashableValidator i.slashed i.activation.toNat i.withdrawable.toNat i.curEpoch.toNat <;> simp_all <;> omega))

theorem pslash_violated_never_accept (i : PSlashIn) (c : Cond) (hc : c ∈ Spec.pslashConds i)
    (hv : c.holds = false) : (validateProposerSlashing i).verdict ≠ .ACCEPT :=
  never_accept_of_iff (pslash_accept_iff_all_conditions i) hc hv

theorem pslash_timing_failures_ignore (i : PSlashIn) :
    allHold (Spec.pslashConds i) = false → onlyTimingFails (Spec.pslashConds i) = true →
    (validateProposerSlashing i).verdict = .IGNORE := by
  have hv := pslashValid_iff i
  have hsh := pslashShapeOk_iff i
  fun_cases validateProposerSlashing i
  all_goals (try simp only [Spec.pslashConds] at *)
  all_goals (try gossip_norm)
  all_goals (first | (simp_all; done) | (simp_all; omega) | (cases hx : pslashValid i <;> simp_all <;> omega) | (cases hx : pslashValid i <;> simp_all <;> intros <;> simp_all <;> omega) | (cases h1 : i.sig1 <;> cases h2 : i.sig2 <;> cases h3 : Spec.isSlashableValidator i.slashed i.activation.toNat i.withdrawable.toNat i.curEpoch.toNat <;> simp_all <;> omega))

theorem pslash_marks_only_on_accept (i : PSlashIn) :
    (validateProposerSlashing i).marks ≠ [] → (validateProposerSlashing i).verdict = .ACCEPT := by
  fun_cases validateProposerSlashing i
  all_goals (simp_all [ign, rej, acc])

def pslashOk : PSlashIn :=
  { spe := 8, slot1 := 20, slot2 := 20, prop1 := 7, prop2 := 7, headersEqual := false, seen := false, headOk := true,
    nVals := 64, curEpoch := 3, slashed := false, activation := 0, withdrawable := 18446744073709551615,
    sig1 := true, sig2 := true }
example : (validateProposerSlashing pslashOk).verdict = .ACCEPT ∧ allHold (Spec.pslashConds pslashOk) = true := by decide

/-! ### sync_committee_{subnet_id} -/

theorem syncCommitteeForSlot_eq_spec {α} (spe epp slot : UInt64) (a b : α) (h : slot.toNat + 1 < 2 ^ 64) :
    syncCommitteeForSlot spe epp slot a b = Spec.syncCommitteeFor spe.toNat epp.toNat slot.toNat a b := by
  unfold syncCommitteeForSlot Spec.syncCommitteeFor epochOf
  have h1 : (slot + 1).toNat = slot.toNat + 1 := by
    rw [UInt64.toNat_add]; exact Nat.mod_eq_of_lt h
  rw [beq_toNat]
  simp only [UInt64.toNat_div, h1]

/-- * `slot`     `slot + 1` fits 64 bits
* `members`  sync committee members are validators of the registry
* `len`      the committees' lengths fit 64 bits -/
structure WFSyncMsg (i : SyncMsgIn) : Prop where
  slot : i.slot.toNat + 1 < 2 ^ 64
  curMembers : ∀ v ∈ i.curCommittee, v.toNat < i.nVals.toNat
  nextMembers : ∀ v ∈ i.nextCommittee, v.toNat < i.nVals.toNat
  curLen : i.curCommittee.length < 2 ^ 64
  nextLen : i.nextCommittee.length < 2 ^ 64

theorem inSubnet_member {size : UInt64} {comm : List UInt64} {v sn : UInt64}
    (h : inSubnet size comm v sn = true) : v ∈ comm := by
  unfold inSubnet positionsOf at h
  rw [List.any_eq_true] at h
  obtain ⟨p, hp, _⟩ := h
  have := (List.mem_filter.mp hp).2
  simp at this
  exact List.mem_of_getElem? this

theorem syncCommitteeFor_choice {α} (spe epp slot : Nat) (a b : α) :
    Spec.syncCommitteeFor spe epp slot a b = a ∨ Spec.syncCommitteeFor spe epp slot a b = b := by
  unfold Spec.syncCommitteeFor; split <;> simp

macro "syncmsg_close" : tactic => `(tactic| (
  all_goals (try simp only [Spec.syncMsgConds, Spec.currentSlotCond] at *)
  all_goals (try gossip_norm)
  all_goals (first | (simp_all; done) | (simp_all; omega))))

theorem syncMsg_accept_iff_all_conditions (i : SyncMsgIn) (h : WFSyncMsg i) :
    (validateSyncMessage i).verdict = .ACCEPT ↔ allHold (Spec.syncMsgConds i) = true := by
  obtain ⟨hslot, hcm, hnm, hcl, hnl⟩ := h
  have hwin := slotSpanOk_iff i.minSlot i.maxSlot i.slot 0
  have h0 : (0 : UInt64).toNat = 0 := by decide
  rw [h0] at hwin
  have hsubC := syncSubnet_eq_spec i.syncSize i.curCommittee i.vindex i.subnet hcl
  have hsubN := syncSubnet_eq_spec i.syncSize i.nextCommittee i.vindex i.subnet hnl
  have hmemC : i.nVals.toNat ≤ i.vindex.toNat →
      (Spec.subnetsForSyncCommittee i.syncSize.toNat i.curCommittee i.vindex).contains i.subnet.toNat = false := by
    intro hle
    cases hh : inSubnet i.syncSize i.curCommittee i.vindex i.subnet
    · rw [← hsubC, hh]
    · have := hcm i.vindex (inSubnet_member hh); omega
  have hmemN : i.nVals.toNat ≤ i.vindex.toNat →
      (Spec.subnetsForSyncCommittee i.syncSize.toNat i.nextCommittee i.vindex).contains i.subnet.toNat = false := by
    intro hle
    cases hh : inSubnet i.syncSize i.nextCommittee i.vindex i.subnet
    · rw [← hsubN, hh]
    · have := hnm i.vindex (inSubnet_member hh); omega
  rcases syncCommitteeFor_choice i.spe.toNat i.epp.toNat i.slot.toNat i.curCommittee i.nextCommittee with hc | hc
  all_goals (
    have hcomm := syncCommitteeForSlot_eq_spec i.spe i.epp i.slot i.curCommittee i.nextCommittee hslot
    fun_cases validateSyncMessage i
    all_goals (try simp only [Spec.syncMsgConds, Spec.currentSlotCond] at *)
    all_goals (try gossip_norm)
    all_goals (try simp only [hcomm] at *)
    all_goals (try simp only [hc] at *)
    all_goals (first | (simp_all; done) | (simp_all; omega) | (simp_all; omega)))

theorem syncMsg_violated_never_accept (i : SyncMsgIn) (h : WFSyncMsg i) (c : Cond) (hc : c ∈ Spec.syncMsgConds i)
    (hv : c.holds = false) : (validateSyncMessage i).verdict ≠ .ACCEPT :=
  never_accept_of_iff (syncMsg_accept_iff_all_conditions i h) hc hv

theorem syncMsg_timing_failures_ignore (i : SyncMsgIn) (h : WFSyncMsg i) :
    allHold (Spec.syncMsgConds i) = false → onlyTimingFails (Spec.syncMsgConds i) = true →
    (validateSyncMessage i).verdict = .IGNORE := by
  obtain ⟨hslot, hcm, hnm, hcl, hnl⟩ := h
  have hwin := slotSpanOk_iff i.minSlot i.maxSlot i.slot 0
  have h0 : (0 : UInt64).toNat = 0 := by decide
  rw [h0] at hwin
  have hsubC := syncSubnet_eq_spec i.syncSize i.curCommittee i.vindex i.subnet hcl
  have hsubN := syncSubnet_eq_spec i.syncSize i.nextCommittee i.vindex i.subnet hnl
  have hmemC : i.nVals.toNat ≤ i.vindex.toNat →
      (Spec.subnetsForSyncCommittee i.syncSize.toNat i.curCommittee i.vindex).contains i.subnet.toNat = false := by
    intro hle
    cases hh : inSubnet i.syncSize i.curCommittee i.vindex i.subnet
    · rw [← hsubC, hh]
    · have := hcm i.vindex (inSubnet_member hh); omega
  have hmemN : i.nVals.toNat ≤ i.vindex.toNat →
      (Spec.subnetsForSyncCommittee i.syncSize.toNat i.nextCommittee i.vindex).contains i.subnet.toNat = false := by
    intro hle
    cases hh : inSubnet i.syncSize i.nextCommittee i.vindex i.subnet
    · rw [← hsubN, hh]
    · have := hnm i.vindex (inSubnet_member hh); omega
  rcases syncCommitteeFor_choice i.spe.toNat i.epp.toNat i.slot.toNat i.curCommittee i.nextCommittee with hc | hc
  all_goals (
    have hcomm := syncCommitteeForSlot_eq_spec i.spe i.epp i.slot i.curCommittee i.nextCommittee hslot
    fun_cases validateSyncMessage i
    all_goals (try simp only [Spec.syncMsgConds, Spec.currentSlotCond] at *)
    all_goals (try gossip_norm)
    all_goals (try simp only [hcomm] at *)
    all_goals (try simp only [hc] at *)
    all_goals (first | (simp_all; done) | (simp_all; omega) | (simp_all; omega)))

theorem syncMsg_marks_only_on_accept (i : SyncMsgIn) :
    (validateSyncMessage i).marks ≠ [] → (validateSyncMessage i).verdict = .ACCEPT := by
  fun_cases validateSyncMessage i
  all_goals (simp_all [ign, rej, acc])

/-! ### sync_committee_contribution_and_proof -/

/-- `IndexedSyncCommittee.Subcommittee` is the index slice of `get_sync_subcommittee_pubkeys` -/
theorem subcommittee_eq_spec (size : UInt64) (comm : List UInt64) (sub : UInt64) (hsub : sub.toNat < 4) :
    subcommittee size comm sub = some (Spec.syncSubcommittee size.toNat comm sub.toNat) := by
  unfold subcommittee Spec.syncSubcommittee SYNC_COMMITTEE_SUBNET_COUNT
  have h4 : (4 : UInt64).toNat = 4 := by decide
  have hnot : ¬ (sub ≥ 4) := by
    intro h; have := UInt64.le_iff_toNat_le.mp h; rw [h4] at this; omega
  have hs := size.toNat_lt
  have hmul : (size / 4 * sub).toNat = sub.toNat * (size.toNat / 4) := by
    rw [UInt64.toNat_mul, UInt64.toNat_div, h4, Nat.mul_comm]
    apply Nat.mod_eq_of_lt
    have : sub.toNat * (size.toNat / 4) ≤ 3 * (size.toNat / 4) := Nat.mul_le_mul_right _ (by omega)
    omega
  simp [hnot, hmul, UInt64.toNat_div, h4]

structure WFContrib (i : ContribIn) : Prop where
  slot : i.slot.toNat + 1 < 2 ^ 64
  curMembers : ∀ v ∈ i.curCommittee, v.toNat < i.nVals.toNat
  nextMembers : ∀ v ∈ i.nextCommittee, v.toNat < i.nVals.toNat

theorem contrib_marks_only_on_accept (i : ContribIn) :
    (validateContribution i).marks ≠ [] → (validateContribution i).verdict = .ACCEPT := by
  fun_cases validateContribution i
  all_goals (simp_all [ign, rej, acc])

theorem mem_take_drop {l : List UInt64} {a b : Nat} {v : UInt64} (h : v ∈ (l.drop a).take b) : v ∈ l :=
  List.mem_of_mem_drop (List.mem_of_mem_take h)

theorem contrib_accept_iff_all_conditions (i : ContribIn) (h : WFContrib i) :
    (validateContribution i).verdict = .ACCEPT ↔ allHold (Spec.contribConds i) = true := by
  obtain ⟨hslot, hcm, hnm⟩ := h
  have hwin := slotSpanOk_iff i.minSlot i.maxSlot i.slot 0
  have h0 : (0 : UInt64).toNat = 0 := by decide
  rw [h0] at hwin
  have hagg := isSyncAggregator_eq_spec i.syncSize i.selProof
  have h4 : SYNC_COMMITTEE_SUBNET_COUNT.toNat = 4 := by decide
  have hsc := fun c hs => subcommittee_eq_spec i.syncSize c i.subIdx hs
  have hmC : ∀ v, v ∈ Spec.syncSubcommittee i.syncSize.toNat i.curCommittee i.subIdx.toNat → v.toNat < i.nVals.toNat :=
    fun v hv => hcm v (mem_take_drop hv)
  have hmN : ∀ v, v ∈ Spec.syncSubcommittee i.syncSize.toNat i.nextCommittee i.subIdx.toNat → v.toNat < i.nVals.toNat :=
    fun v hv => hnm v (mem_take_drop hv)
  rcases syncCommitteeFor_choice i.spe.toNat i.epp.toNat i.slot.toNat i.curCommittee i.nextCommittee with hc | hc
  all_goals (
    have hcomm := syncCommitteeForSlot_eq_spec i.spe i.epp i.slot i.curCommittee i.nextCommittee hslot
    have hcs := syncCommitteeForSlot_eq_spec i.spe i.epp i.slot i.contribSigCur i.contribSigNext hslot
    fun_cases validateContribution i
    all_goals (try simp only [Spec.contribConds, Spec.currentSlotCond] at *)
    all_goals (try gossip_norm)
    all_goals (try simp only [hcomm, hcs] at *)
    all_goals (try simp only [hc] at *)
    all_goals (first | (simp_all; done) | (simp_all; omega) | (simp_all; intros; first | (have hm := hmC _ ‹i.aggregator ∈ _›; omega) | (have hm := hmN _ ‹i.aggregator ∈ _›; omega))))

theorem contrib_violated_never_accept (i : ContribIn) (h : WFContrib i) (c : Cond) (hc : c ∈ Spec.contribConds i)
    (hv : c.holds = false) : (validateContribution i).verdict ≠ .ACCEPT :=
  never_accept_of_iff (contrib_accept_iff_all_conditions i h) hc hv

theorem contrib_timing_failures_ignore (i : ContribIn) (h : WFContrib i) :
    allHold (Spec.contribConds i) = false → onlyTimingFails (Spec.contribConds i) = true →
    (validateContribution i).verdict = .IGNORE := by
  obtain ⟨hslot, hcm, hnm⟩ := h
  have hwin := slotSpanOk_iff i.minSlot i.maxSlot i.slot 0
  have h0 : (0 : UInt64).toNat = 0 := by decide
  rw [h0] at hwin
  have hagg := isSyncAggregator_eq_spec i.syncSize i.selProof
  have h4 : SYNC_COMMITTEE_SUBNET_COUNT.toNat = 4 := by decide
  have hsc := fun c hs => subcommittee_eq_spec i.syncSize c i.subIdx hs
  have hmC : ∀ v, v ∈ Spec.syncSubcommittee i.syncSize.toNat i.curCommittee i.subIdx.toNat → v.toNat < i.nVals.toNat :=
    fun v hv => hcm v (mem_take_drop hv)
  have hmN : ∀ v, v ∈ Spec.syncSubcommittee i.syncSize.toNat i.nextCommittee i.subIdx.toNat → v.toNat < i.nVals.toNat :=
    fun v hv => hnm v (mem_take_drop hv)
  rcases syncCommitteeFor_choice i.spe.toNat i.epp.toNat i.slot.toNat i.curCommittee i.nextCommittee with hc | hc
  all_goals (
    have hcomm := syncCommitteeForSlot_eq_spec i.spe i.epp i.slot i.curCommittee i.nextCommittee hslot
    have hcs := syncCommitteeForSlot_eq_spec i.spe i.epp i.slot i.contribSigCur i.contribSigNext hslot
    fun_cases validateContribution i
    all_goals (try simp only [Spec.contribConds, Spec.currentSlotCond] at *)
    all_goals (try gossip_norm)
    all_goals (try simp only [hcomm, hcs] at *)
    all_goals (try simp only [hc] at *)
    all_goals (first | (simp_all; done) | (simp_all; omega) | (simp_all; intros; first | (have hm := hmC _ ‹i.aggregator ∈ _›; omega) | (have hm := hmN _ ‹i.aggregator ∈ _›; omega))))

/-! ### attester_slashing

`intersect` (the model of `ZigZagJoin` on two strictly sorted index lists) is the specification's set
intersection by definition; that the Go loop computes it is tied by the `c12` correspondence. -/

theorem sortedStrict_eq_spec (l : List UInt64) : sortedStrict l = Spec.sortedUnique l := by
  fun_induction sortedStrict l with
  | case1 a b r ih => simp [Spec.sortedUnique, ih, UInt64.lt_iff_toNat_lt]
  | case2 l h =>
    match l with
    | [] => simp [Spec.sortedUnique]
    | [a] => simp [Spec.sortedUnique]
    | a :: b :: r => exact absurd rfl (h a b r)

theorem indicesSetOk_eq (m : Nat) (l : List UInt64) :
    indicesSetOk m l = (!l.isEmpty && decide (l.length ≤ m) && Spec.sortedUnique l) := by
  unfold indicesSetOk
  rw [sortedStrict_eq_spec]
  cases l with
  | nil => simp
  | cons a r =>
    simp only [List.length_cons] at *
    by_cases h : r.length + 1 > m
    · have h2 : ¬ (r.length + 1 ≤ m) := by omega
      have h3 : m < r.length + 1 := by omega
      simp [h2, h3]
    · have h2 : r.length + 1 ≤ m := by omega
      have h3 : ¬ (m < r.length + 1) := by omega
      simp [h2, h3]

theorem isSlashableData_eq_spec (i : ASlashIn) :
    isSlashableData i = Spec.isSlashableAttestationData i.src1.toNat i.tgt1.toNat i.src2.toNat i.tgt2.toNat i.dataEqual := by
  unfold isSlashableData Spec.isSlashableAttestationData
  rw [beq_toNat]
  by_cases h1 : i.src1 < i.src2 <;> by_cases h2 : i.tgt1 > i.tgt2 <;> cases i.dataEqual <;>
    by_cases h3 : i.tgt1.toNat = i.tgt2.toNat <;>
    simp_all [UInt64.lt_iff_toNat_lt] <;> omega

/-- for a strictly increasing list the last element bounds all -/
theorem sorted_last_bound (n : Nat) (l : List UInt64) (hs : Spec.sortedUnique l = true) (x : UInt64)
    (hx : l.getLast? = some x) : decide (x.toNat < n) = l.all (fun v => decide (v.toNat < n)) := by
  induction l with
  | nil => simp at hx
  | cons a r ih =>
    cases r with
    | nil => simp at hx; subst hx; simp
    | cons b r' =>
      simp only [Spec.sortedUnique, Bool.and_eq_true, decide_eq_true_eq] at hs
      have hx' : (b :: r').getLast? = some x := by simpa [List.getLast?_cons_cons] using hx
      have := ih hs.2 hx'
      -- a < b ≤ … ≤ x
      have hbx : b.toNat ≤ x.toNat := by
        clear ih this hx
        induction r' generalizing b with
        | nil => simp at hx'; subst hx'; exact Nat.le_refl _
        | cons c r'' ih2 =>
          simp only [Spec.sortedUnique, Bool.and_eq_true, decide_eq_true_eq] at hs
          have hx'' : (c :: r'').getLast? = some x := by simpa [List.getLast?_cons_cons] using hx'
          have := ih2 c ⟨by omega, hs.2.2⟩ hx''
          omega
      rw [List.all_cons, ← this]
      by_cases h : x.toNat < n
      · have : a.toNat < n := by omega
        simp [h, this]
      · simp [h]

/-- the specification's per-validator predicate inside `aslashAnySlashable` -/
def slSpec (i : ASlashIn) (v : UInt64) : Bool :=
  match i.vals.find? (·.1 == v) with
  | some (_, sl, act, wd) => decide (v.toNat < i.nVals.toNat) &&
      Spec.isSlashableValidator sl act.toNat wd.toNat i.curEpoch.toNat
  | none => false

theorem aslashAny_eq (i : ASlashIn) : Spec.aslashAnySlashable i = (intersect i.idx1 i.idx2).any (slSpec i) := by
  unfold Spec.aslashAnySlashable intersect slSpec; rfl

theorem valSlashable_some (i : ASlashIn) (v : UInt64) (b : Bool) (h : valSlashable i v = some b) :
    v.toNat < i.nVals.toNat ∧ b = slSpec i v := by
  unfold valSlashable at h
  unfold slSpec
  by_cases hlt : v < i.nVals
  · have hlt' := UInt64.lt_iff_toNat_lt.mp hlt
    simp only [hlt, decide_true, Bool.not_true, Bool.false_eq_true, if_false] at h
    split at h
    · rename_i _ sl act wd heq
      refine ⟨hlt', ?_⟩
      simp only [heq, hlt', decide_true, Bool.true_and]
      rw [← isSlashable_eq_spec]
      exact (Option.some.inj h).symm
    · cases h
  · simp [hlt] at h

theorem valSlashable_none (i : ASlashIn) (v : UInt64) (h : valSlashable i v = none) :
    ¬ (v.toNat < i.nVals.toNat) ∨ i.vals.find? (·.1 == v) = none := by
  unfold valSlashable at h
  by_cases hlt : v < i.nVals
  · right
    simp only [hlt, decide_true, Bool.not_true, Bool.false_eq_true, if_false] at h
    split at h
    · cases h
    · assumption
  · left; exact fun h' => hlt (UInt64.lt_iff_toNat_lt.mpr h')

theorem filterSlashable_some (i : ASlashIn) (l keep : List UInt64) (h : filterSlashable i l = some keep) :
    (∀ v ∈ l, v.toNat < i.nVals.toNat) ∧ keep = l.filter (slSpec i) := by
  induction l generalizing keep with
  | nil => simp [filterSlashable] at h; simp [h]
  | cons v r ih =>
    unfold filterSlashable at h
    split at h
    · cases h
    · rename_i b hb
      split at h
      · cases h
      · rename_i rest hr
        obtain ⟨hlt, hbe⟩ := valSlashable_some i v b hb
        obtain ⟨hall, hrest⟩ := ih rest hr
        refine ⟨?_, ?_⟩
        · intro w hw
          rcases List.mem_cons.mp hw with rfl | hw
          · exact hlt
          · exact hall w hw
        · have := Option.some.inj h
          rw [← this, hrest, List.filter_cons, ← hbe]

theorem filterSlashable_none (i : ASlashIn) (l : List UInt64) (h : filterSlashable i l = none) :
    ∃ v ∈ l, valSlashable i v = none := by
  induction l with
  | nil => simp [filterSlashable] at h
  | cons v r ih =>
    unfold filterSlashable at h
    split at h
    · rename_i hv; exact ⟨v, List.mem_cons_self, hv⟩
    · split at h
      · rename_i hr
        obtain ⟨w, hw, hwn⟩ := ih hr
        exact ⟨w, List.mem_cons_of_mem _ hw, hwn⟩
      · cases h

theorem indexedOk_eq (i : ASlashIn) (idx : List UInt64) (sig : Bool) :
    indexedOk i idx sig = (Spec.validIndexedShape i.maxPerComm i.nVals.toNat idx && sig) := by
  unfold indexedOk Spec.validIndexedShape
  rw [indicesSetOk_eq]
  cases hidx : idx with
  | nil => simp
  | cons a r =>
    obtain ⟨last, hlast⟩ : ∃ x, (a :: r).getLast? = some x :=
      ⟨(a :: r).getLast (by simp), List.getLast?_eq_some_getLast (by simp)⟩
    rw [hlast]
    have hne : (a :: r).isEmpty = false := rfl
    by_cases hlen : (a :: r).length ≤ i.maxPerComm
    · by_cases hs : Spec.sortedUnique (a :: r) = true
      · have hb := sorted_last_bound i.nVals.toNat (a :: r) hs last hlast
        rw [← hb]
        by_cases hl : last < i.nVals
        · have := UInt64.lt_iff_toNat_lt.mp hl
          simp only [hne, hlen, hs, hl, this, decide_true, Bool.not_false, Bool.true_and, Bool.not_true,
            Bool.false_eq_true, if_false]
        · have : ¬ last.toNat < i.nVals.toNat := fun h => hl (UInt64.lt_iff_toNat_lt.mpr h)
          simp only [hne, hlen, hs, hl, this, decide_true, decide_false, Bool.not_false, Bool.true_and, Bool.not_true,
            Bool.false_eq_true, if_false, if_true, Bool.false_and, Bool.and_false]
      · have hs' : Spec.sortedUnique (a :: r) = false := by simpa using hs
        simp only [hne, hlen, hs', decide_true, Bool.not_false, Bool.true_and, Bool.and_false, Bool.false_and,
          Bool.not_false, if_true]
    · simp only [hne, hlen, decide_false, Bool.not_false, Bool.true_and, Bool.false_and, Bool.and_false,
        if_true]

structure WFASlash (i : ASlashIn) : Prop where
  /-- the record lists the registry entry of every in-range validator index of the message -/
  valsComplete : ∀ v ∈ i.idx1, v.toNat < i.nVals.toNat → (i.vals.find? (·.1 == v)).isSome = true

theorem mem_intersect {a b : List UInt64} {v : UInt64} (h : v ∈ intersect a b) : v ∈ a := by
  unfold intersect at h; exact (List.mem_filter.mp h).1

/-- the model's accept path, as one formula -/
theorem aslash_accept_char (i : ASlashIn) :
    (validateAttesterSlashing i).verdict = .ACCEPT ↔
      (isSlashableData i = true ∧ indicesSetOk i.maxPerComm i.idx1 = true ∧ indicesSetOk i.maxPerComm i.idx2 = true ∧
        i.allSeen = false ∧ i.headOk = true ∧
        ∃ keep, filterSlashable i (intersect i.idx1 i.idx2) = some keep ∧ keep ≠ [] ∧
          indexedOk i i.idx1 i.sig1 = true ∧ indexedOk i i.idx2 i.sig2 = true) := by
  fun_cases validateAttesterSlashing i
  all_goals (simp_all (config := {zetaDelta := true}) [ign, rej, acc])

theorem shape_split (m n : Nat) (l : List UInt64) :
    Spec.validIndexedShape m n l = true ↔
      ((!l.isEmpty && decide (l.length ≤ m) && Spec.sortedUnique l) = true ∧ ∀ v ∈ l, v.toNat < n) := by
  unfold Spec.validIndexedShape
  simp [Bool.and_eq_true, List.all_eq_true]

theorem aslash_accept_iff_all_conditions (i : ASlashIn) (h : WFASlash i) :
    (validateAttesterSlashing i).verdict = .ACCEPT ↔ allHold (Spec.aslashConds i) = true := by
  obtain ⟨hvc⟩ := h
  rw [aslash_accept_char, isSlashableData_eq_spec, indicesSetOk_eq, indicesSetOk_eq, indexedOk_eq, indexedOk_eq]
  simp only [Spec.aslashConds, allHold, Spec.I, Spec.R, Spec.L, List.all_cons, List.all_nil, Bool.and_true,
    Bool.and_eq_true, Bool.or_eq_true, Bool.not_eq_true', aslashAny_eq]
  constructor
  · rintro ⟨hd, h1, h2, hseen, hhead, keep, hf, hne, ⟨hsh1, hsig1⟩, ⟨hsh2, hsig2⟩⟩
    obtain ⟨_, hkeep⟩ := filterSlashable_some i _ keep hf
    have hany : (intersect i.idx1 i.idx2).any (slSpec i) = true := by
      obtain ⟨x, hx⟩ := List.exists_mem_of_ne_nil keep hne
      rw [hkeep] at hx
      exact List.any_eq_true.mpr ⟨x, (List.mem_filter.mp hx).1, (List.mem_filter.mp hx).2⟩
    simp only [hhead, if_true]
    exact ⟨hseen, hd, hsh1, hsh2, Or.inr hsig1, Or.inr hsig2, Or.inr hany, trivial⟩
  · rintro ⟨hseen, hd, hsh1, hsh2, hsig1, hsig2, hany, hhead⟩
    simp only [hhead, if_true] at hsh1 hsh2
    have hsig1 : i.sig1 = true := by rcases hsig1 with h | h; · rw [hhead] at h; cases h
                                     · exact h
    have hsig2 : i.sig2 = true := by rcases hsig2 with h | h; · rw [hhead] at h; cases h
                                     · exact h
    have hany : (intersect i.idx1 i.idx2).any (slSpec i) = true := by
      rcases hany with h | h; · rw [hhead] at h; cases h
      · exact h
    have ⟨hs1, hall1⟩ := (shape_split _ _ _).mp hsh1
    have ⟨hs2, _⟩ := (shape_split _ _ _).mp hsh2
    -- the filter cannot fail: every index of the intersection is in the registry and listed in the record
    have hsome : ∃ keep, filterSlashable i (intersect i.idx1 i.idx2) = some keep := by
      cases hfs : filterSlashable i (intersect i.idx1 i.idx2) with
      | some k => exact ⟨k, rfl⟩
      | none =>
        exfalso
        obtain ⟨v, hv, hvn⟩ := filterSlashable_none i _ hfs
        have hv1 := mem_intersect hv
        have hlt := hall1 v hv1
        rcases valSlashable_none i v hvn with hh | hh
        · exact hh hlt
        · have := hvc v hv1 hlt; rw [hh] at this; cases this
    obtain ⟨keep, hf⟩ := hsome
    obtain ⟨_, hkeep⟩ := filterSlashable_some i _ keep hf
    have hne : keep ≠ [] := by
      obtain ⟨x, hx, hp⟩ := List.any_eq_true.mp hany
      intro he
      have : x ∈ keep := by rw [hkeep]; exact List.mem_filter.mpr ⟨hx, hp⟩
      rw [he] at this; cases this
    exact ⟨hd, by simpa using hs1, by simpa using hs2, hseen, hhead, keep, hf, hne, ⟨hsh1, hsig1⟩, ⟨hsh2, hsig2⟩⟩

theorem aslash_violated_never_accept (i : ASlashIn) (h : WFASlash i) (c : Cond) (hc : c ∈ Spec.aslashConds i)
    (hv : c.holds = false) : (validateAttesterSlashing i).verdict ≠ .ACCEPT :=
  never_accept_of_iff (aslash_accept_iff_all_conditions i h) hc hv

theorem aslash_timing_failures_ignore (i : ASlashIn) :
    allHold (Spec.aslashConds i) = false → onlyTimingFails (Spec.aslashConds i) = true →
    (validateAttesterSlashing i).verdict = .IGNORE := by
  intro hf ht
  simp only [Spec.aslashConds, allHold, onlyTimingFails, Spec.I, Spec.R, Spec.L, List.all_cons, List.all_nil,
    Bool.and_true, Bool.and_eq_true, Bool.or_eq_true, Bool.not_eq_true', beq_iff_eq] at hf ht
  obtain ⟨_, hd, hsh1, hsh2, h5, h6, h7, hhead⟩ := ht
  have hd : Spec.isSlashableAttestationData i.src1.toNat i.tgt1.toNat i.src2.toNat i.tgt2.toNat i.dataEqual = true := by
    rcases hd with h | h; · exact h
    · cases h
  have hhead : i.headOk = true := by
    rcases hhead with h | h; · exact h
    · cases h
  have hsh1 : Spec.validIndexedShape i.maxPerComm i.nVals.toNat i.idx1 = true := by
    rcases hsh1 with h | h; · simpa [hhead] using h
    · cases h
  have hsh2 : Spec.validIndexedShape i.maxPerComm i.nVals.toNat i.idx2 = true := by
    rcases hsh2 with h | h; · simpa [hhead] using h
    · cases h
  have hs1 : indicesSetOk i.maxPerComm i.idx1 = true := by
    rw [indicesSetOk_eq]; exact ((shape_split _ _ _).mp hsh1).1
  have hs2 : indicesSetOk i.maxPerComm i.idx2 = true := by
    rw [indicesSetOk_eq]; exact ((shape_split _ _ _).mp hsh2).1
  have hdm : isSlashableData i = true := by rw [isSlashableData_eq_spec]; exact hd
  -- some condition fails, and it is not one of the REJECT/LOCAL ones: the duplicate condition
  have hseen : i.allSeen = true := by
    cases hs : i.allSeen with
    | true => rfl
    | false =>
      exfalso
      have h5' : i.sig1 = true := by
        rcases h5 with h | h
        · rcases h with h | h; · rw [hhead] at h; cases h
          · exact h
        · cases h
      have h6' : i.sig2 = true := by
        rcases h6 with h | h
        · rcases h with h | h; · rw [hhead] at h; cases h
          · exact h
        · cases h
      have h7' : Spec.aslashAnySlashable i = true := by
        rcases h7 with h | h
        · rcases h with h | h; · rw [hhead] at h; cases h
          · exact h
        · cases h
      simp [hs, hd, hhead, hsh1, hsh2, h5', h6', h7'] at hf
  unfold validateAttesterSlashing
  simp [hdm, hs1, hs2, hseen, ign]

theorem aslash_marks_only_on_accept (i : ASlashIn) :
    (validateAttesterSlashing i).marks ≠ [] → (validateAttesterSlashing i).verdict = .ACCEPT := by
  fun_cases validateAttesterSlashing i
  all_goals (simp_all [ign, rej, acc])

def aslashOk : ASlashIn :=
  { src1 := 1, tgt1 := 2, src2 := 1, tgt2 := 2, dataEqual := false, idx1 := [3, 5, 9], idx2 := [5, 9, 11],
    maxPerComm := 2048, allSeen := false, headOk := true, nVals := 64,
    vals := [(3, false, 0, 18446744073709551615), (5, false, 0, 18446744073709551615),
             (9, false, 0, 18446744073709551615), (11, false, 0, 18446744073709551615)],
    curEpoch := 3, sig1 := true, sig2 := true }
example : WFASlash aslashOk := ⟨by decide⟩
example : (validateAttesterSlashing aslashOk).verdict = .ACCEPT ∧ allHold (Spec.aslashConds aslashOk) = true ∧
    (validateAttesterSlashing aslashOk).marks = [call "MarkAttesterSlashings" [5, 9]] := by decide +kernel

/-- `CheckAttestationSlot`, **regenerated from gossipval/common.go**, is exactly the hand model `attSlotOk` that the
validator models call (so that part of the gossip model is the code itself), and it never panics for a non-zero
`SLOTS_PER_EPOCH`. With `attSlotOk_eq_spec` this is the specification's attestation propagation window. -/
theorem checkAttestationSlot_eq_model (spec : Spec) (mn mx slot : UInt64) (h : spec.SLOTS_PER_EPOCH ≠ 0) :
    CheckAttestationSlot spec (clock mn mx) slot =
      (if attSlotOk spec.SLOTS_PER_EPOCH spec.DENEB_FORK_EPOCH mn mx slot then .ok () else .err) := by
  have hc1 : clock mn mx (500 : Int) = mx := by simp [clock]
  have hc2 : clock mn mx (-(500 : Int)) = mn := by simp [clock]
  have he : ∀ x, SlotToEpoch spec x = .ok (x / spec.SLOTS_PER_EPOCH) := by
    intro x; simp [SlotToEpoch, Res.udiv, h]
  unfold CheckAttestationSlot attSlotOk epochOf
  simp only [hc1, hc2, he, bind, Res.bind]
  by_cases hd : mx / spec.SLOTS_PER_EPOCH < spec.DENEB_FORK_EPOCH
  · simp only [hd, decide_true, ite_true]
    unfold slotSpanOk ATTESTATION_PROPAGATION_SLOT_RANGE
    rcases checkSlotSpan_total (clock mn mx) slot 32 with h2 | h2 <;> simp [h2]
  · simp only [hd, decide_false]
    by_cases hs : slot > mx
    · simp [hs]
    · simp only [hs, decide_false]
      by_cases h1 : (slot / spec.SLOTS_PER_EPOCH == mn / spec.SLOTS_PER_EPOCH ||
          (mn / spec.SLOTS_PER_EPOCH != 0 && slot / spec.SLOTS_PER_EPOCH == mn / spec.SLOTS_PER_EPOCH - 1)) = true
      · simp [h1]
      · by_cases h2 : (slot / spec.SLOTS_PER_EPOCH == mx / spec.SLOTS_PER_EPOCH ||
            (mx / spec.SLOTS_PER_EPOCH != 0 && slot / spec.SLOTS_PER_EPOCH == mx / spec.SLOTS_PER_EPOCH - 1)) = true
        · simp [h1, h2]
        · simp [h1, h2]

end Zrnt.Proofs.C12
