import Proofs.Lemmas.BeaconBlock
import Proofs.Lemmas.BeaconBlockM
import Proofs.Lemmas.BeaconBlockWF
import Proofs.Lemmas.BeaconBlockOps
import Proofs.Lemmas.BeaconBlockSlashInv
import Proofs.Lemmas.BeaconBlockCompose
import Proofs.Lemmas.BeaconBlockSteps
import Proofs.Lemmas.BeaconBlockFrames
import Proofs.Lemmas.BeaconBlockP0
import Proofs.Lemmas.BeaconBlockP0Att
import Proofs.Lemmas.BeaconBlockP0All
import Proofs.Lemmas.BeaconBlockP0Dep
import Proofs.Lemmas.BeaconBlockAltair
import Proofs.Properties.C02
/-!
# C01 — block state transition equals the consensus spec for every valid block

`S` = the specification layer (`Zrnt/Beacon/Spec/BlockOps.lean`, `BlockTransition.lean`; helper
functions from `Spec/Helpers.lean`), `M` = the code-shaped model of the places where zrnt's algorithm
has another shape than the spec (`Zrnt/Beacon/Impl/Block.lean`).

## The full statement (NOT proved here)

```
theorem M_block_refines_S (cfg : Config) (st : State) (ctx) (blk : SignedBlock) :
    WF cfg st → ctx = ctxOf cfg st →
    ∀ post, S.state_transition cfg st blk = .ok post →
      ∃ post', M.stateTransition cfg (st, ctx) blk = .ok post' ∧ abs post' = post
```
where `M.stateTransition` is a model of `common.StateTransition` + every per-fork `ProcessBlock`
with the `EpochsContext`. That end-to-end model does not exist; what is proved is
`M_block_refines_S_partial`: the refinement lemmas of the four places where zrnt's block-processing
ALGORITHM differs in shape from the spec (each ∀-quantified, no size bound):

* attester slashing: `ZigZagJoin` = the spec's sorted intersection            (`zigzag_eq_sorted_inter`)
* exits/slashings:   the single-pass exit-queue scan = spec's max + count      (`initiateExit_eq`)
* withdrawals:       the sweep loop with early reads and breaks = spec's loop  (`withdrawals_eq`)
* attester slashing: `IsSlashableAttestationData` = the spec predicate         (`slashable_eq`)

Round 2 added whole-operation refinements `M = S` (accept/reject AND post-state; `M` = `Zrnt/Beacon/Impl/BlockM.lean`,
the model column of modes `c01`/`c03`): `header_eq`, `randao_eq`, `eth1vote_eq`, `exit_eq` (end to end), `deposit_eq`,
`blsChange_eq`, `payload_eq` (three forks), `withdrawalsApply_eq` and `syncAggregate_eq` (the last two against pure cores
of `S` that the monadic `S` is compared with on every evaluation), the frame lemma `proposer_frame`, and
`WF_preserved_block_partial`.

Round 3 added: `process_attestation` of every fork (`attestation_phase0_eq`, `attestation_altair_eq`, `attestation_deneb_eq`),
`slash_validator` (`slash_eq`, and the link `slash_link` between the monadic `S` and its pure core), both slashings as
whole operations (`proposerSlashing_eq`, `attesterSlashing_eq`: the hypotheses of every single `slash_validator` are
re-established along the loop by the invariant `SlashInv`), `WF` under slashing (`WF_preserved_slashing`), and the
COMPOSITION: `processBlock_eq` (every fork; coded order = spec order up to the two places where zrnt asserts later than
the spec — the operation-count limits and the deposit count —, which the proof commutes), `postSlotTransition_eq`
(block signature, `process_block`, state root) and `stateTransition_eq` (with C02's full `processSlots_eq` in front).

The composition is stated for an arbitrary counter-indexed invariant `Inv k ctx st` (`k` = units of budget left) and takes
`OpSteps cfg block F Inv` as its premise: per operation kind, (1) under `Inv (k+1)` the model simulates the specification
and (2) the model's accepted result satisfies `Inv k`; a block starts with `blockNeed block k` units (one per step). (1) is PROVED for every operation kind from the hypotheses of its `_eq` theorem (`sim_header` … `sim_sync`
in `Proofs/Lemmas/BeaconBlockSteps.lean`, `Sim.of_eq` of the `toRes` equalities). (2), for ONE invariant that implies
all those hypotheses at once, is proved for voluntary exits, deposits' registry part, BLS changes and slashings
(`WF_preserved_block_partial`, `WF_preserved_slashing`, `SlashInv_step`) and is NOT proved for the magnitude
hypotheses across attestations / sync aggregate / withdrawals (balances grow by bounded rewards: a budget argument as in
`SlashInv`) nor assembled with the frame lemmas for the context facts that C07/C08 provide (`ctx_frames`: committee count, committees,
total active balance and proposer stay the specification's while the state changes under the context; proved for exit
initiation, i.e. exits and slashings). That is what keeps `M_block_refines_S` a `_partial`: see
`M_block_refines_S_partial`. For phase0 blocks WITHOUT operations the premise is discharged completely:
`processBlock_noOps_eq`; for phase0 blocks whose only operations are voluntary exits: `processBlock_exits_eq`; and for phase0 blocks of proposer
slashings, attester slashings and exits: `processBlock_slashExit_eq`; for phase0 blocks of attestations:
`processBlock_attestations_eq`. Merged: arbitrary phase0 blocks without deposits, `processBlock_phase0NoDeposits_eq`; and EVERY phase0 block, deposits
included: `processBlock_phase0_eq`, `M_block_refines_S_phase0` (C03: `M_sound_phase0`). The later forks are open.
Each `M` piece is additionally tied to the Go function it models by mode `c01pieces`
(ZigZagJoin, IsSlashableAttestationData, GetExpectedWithdrawals, InitiateValidatorExit,
ValidateIndexedAttestationIndicesSet are driven directly with generated inputs).
-/
namespace Zrnt.Proofs.C01
open Zrnt Zrnt.Beacon Zrnt.Beacon.Spec Zrnt.Beacon.BlockImpl Zrnt.Proofs.BeaconBlock
open Zrnt.Beacon.BlockM (Ctx processHeader processRandaoReveal processEth1Vote processBLSToExecutionChange processExecutionPayload processVoluntaryExit processDeposit
  processAttestationPhase0 processAttestationAltair slashValidator processProposerSlashing processAttesterSlashing processBlock postSlotTransition)
open Zrnt.Proofs.BlockM (RegU64 ExitSmall PubkeyOK SameDuties SlashSmall SlashInv OpSteps Sim Refines Safe NoOps SameCommittees OnlyExits ExitInv P0Inv P0Const SlashExitBlock AttInv OnlyAttestations P0AInv P0AConst Phase0NoDeposits P0DInv P0DConst Phase0Block AltInv AltConst AltExtra AltairBlock BellatrixBlock CapellaBlock CapConst Admissible)

/-- (a) `common.ValidatorSet.ZigZagJoin`, called on two strictly increasing index lists (what
`ValidateIndexedAttestation` has established), calls `onIn` with exactly the spec's
`sorted(set(a).intersection(b))`, in that order — so validators are slashed in the spec's order.
The hypothesis `x < marker` excludes the one value the Go code reserves as its end-of-list marker
(`ValidatorIndexMarker = 2^64−1`, never a validator index: indices are `< len(validators) ≤ 2^40`). -/
theorem zigzag_eq_sorted_inter (vs target : List Nat)
    (hvs : vs.Pairwise (· < ·)) (htarget : target.Pairwise (· < ·)) (hmarker : ∀ x ∈ vs, x < marker) :
    zigzagIn vs target = .ok (Block.sortedIntersection vs target) := by
  rw [sortedIntersection_eq_filter vs target hvs]
  exact zigzagIn_eq_filter vs target hvs htarget hmarker

/-- non-vacuity -/
example : zigzagIn [1, 4, 7, 9] [0, 4, 5, 9, 12] = .ok (Block.sortedIntersection [1, 4, 7, 9] [0, 4, 5, 9, 12]) := by decide
example : Block.sortedIntersection [1, 4, 7, 9] [0, 4, 5, 9, 12] = [4, 9] := by decide

/-- The marker hypothesis cannot be dropped: with the marker value in the source list and the target
exhausted, `ZigZagJoin` reports it as common (`iV == jV` compares it with the out-of-range filler). -/
theorem zigzag_marker_witness :
    zigzagIn [marker] [] = .ok [marker] ∧ Block.sortedIntersection [marker] [] = [] := by decide

/-- the intersection the spec iterates over really is sorted and duplicate-free with the right members
(for arbitrary, also unsorted, inputs) -/
theorem zigzag_result_characterised (vs target : List Nat)
    (hvs : vs.Pairwise (· < ·)) (htarget : target.Pairwise (· < ·)) (hmarker : ∀ x ∈ vs, x < marker) :
    ∃ r, zigzagIn vs target = .ok r ∧ r.Pairwise (· < ·) ∧ ∀ x, x ∈ r ↔ x ∈ vs ∧ x ∈ target := by
  refine ⟨_, zigzagIn_eq_filter vs target hvs htarget hmarker, hvs.filter _, ?_⟩
  intro x; simp [List.mem_filter]

/-- The oracle side of (a): `S`'s `sortedIntersection` really is `sorted(set(a).intersection(b))`, for ALL
lists (unsorted, with duplicates): strictly increasing, members = the common members. -/
theorem sortedIntersection_is_set_intersection (a b : List Nat) :
    (Block.sortedIntersection a b).Pairwise (· < ·) ∧ ∀ y, y ∈ Block.sortedIntersection a b ↔ y ∈ a ∧ y ∈ b :=
  sortedIntersection_spec a b

/-- (b) `phase0.InitiateValidatorExit`: one pass over the registry tracking (queue end, churn at the
end) equals the spec's `max(exit_epochs + [activation_exit_epoch])` followed by a count, for every
registry — given the epochs-context invariant `activeCount = |active validators|` (C08) and that no
epoch involved leaves the `uint64` range (where the spec itself rejects). -/
theorem initiateExit_eq (cfg : Config) (cur activeCount : Nat) (vals : List Validator) (index : Nat)
    (hidx : index < vals.length)
    (hact : activeCount = (vals.filter (is_active_validator · cur)).length)
    (hq : cfg.CHURN_LIMIT_QUOTIENT ≠ 0)
    (hexits : ∀ v ∈ vals, v.exit_epoch ≤ FAR_FUTURE_EPOCH)
    (hno : maxOf (cur + 1 + cfg.MAX_SEED_LOOKAHEAD) (vals.map (·.exit_epoch)) + 1 + cfg.MIN_VALIDATOR_WITHDRAWABILITY_DELAY < 2 ^ 64) :
    initiateValidatorExit cfg cur activeCount vals index = .ok (initiate_validator_exit_pure cfg cur vals index) :=
  BeaconBlock.initiateExit_eq cfg cur activeCount vals index hidx hact hq hexits hno

/-- the scan itself, for every list of exit epochs: end = maximum, churn = number of entries at the maximum -/
theorem exitQueueScan_spec (exits : List Nat) (start : Nat) (hs : start < FAR_FUTURE_EPOCH)
    (hx : ∀ x ∈ exits, x ≤ FAR_FUTURE_EPOCH) :
    exitQueueScan exits start = (maxOf start exits, countEq (maxOf start exits) exits) := by
  rw [exitQueueScan_eq, scan_spec exits start 0 hs hx]
  congr 1
  split <;> omega

/-- non-vacuity: three validators already exiting at epoch 9 (churn limit 2 reached) push the next exit to 10 -/
example :
    let cfg : Config := { (default : Config) with CHURN_LIMIT_QUOTIENT := 4, MIN_PER_EPOCH_CHURN_LIMIT := 2, MAX_SEED_LOOKAHEAD := 4,
                                                    MIN_VALIDATOR_WITHDRAWABILITY_DELAY := 256 }
    let v (e : Nat) : Validator := { (default : Validator) with exit_epoch := e, activation_epoch := 0 }
    (do let l ← initiateValidatorExit cfg 3 2 [v 9, v 9, v FAR_FUTURE_EPOCH, v 9] 2; pure (l.map (·.exit_epoch)) : Res (List Nat))
      = Res.ok [9, 9, 10, 9] := by
  decide +kernel

/-- non-vacuity of the hypotheses of `initiateExit_eq`: the same registry (all four active at epoch 3) -/
example :
    let cfg : Config := { (default : Config) with CHURN_LIMIT_QUOTIENT := 4, MIN_PER_EPOCH_CHURN_LIMIT := 2, MAX_SEED_LOOKAHEAD := 4,
                                                    MIN_VALIDATOR_WITHDRAWABILITY_DELAY := 256 }
    let v (e : Nat) : Validator := { (default : Validator) with exit_epoch := e, activation_epoch := 0 }
    initiateValidatorExit cfg 3 4 [v 9, v 9, v FAR_FUTURE_EPOCH, v 9] 2
      = .ok (initiate_validator_exit_pure cfg 3 [v 9, v 9, v FAR_FUTURE_EPOCH, v 9] 2) := by
  intro cfg v
  exact initiateExit_eq cfg 3 4 _ 2 (by decide) (by decide) (by decide) (by decide) (by decide)

/-- (c) `capella.GetExpectedWithdrawals` (reads the cursor's validator and balance BEFORE testing the
loop bound, leaves the loop by `break`, wraps its index arithmetic) equals the spec's
`get_expected_withdrawals` on every state with a non-empty registry containing the sweep cursor and
one balance per validator. -/
theorem withdrawals_eq (cfg : Config) (s : State)
    (hbal : s.balances.length = s.validators.length) (hlen : s.validators.length < 2 ^ 64)
    (hcur : s.next_withdrawal_validator_index < s.validators.length)
    (hwi : s.next_withdrawal_index + s.validators.length < 2 ^ 64) :
    expectedWithdrawals cfg s = toRes (Block.get_expected_withdrawals cfg s) :=
  BeaconBlock.withdrawals_eq cfg s hbal hlen hcur hwi

/-- non-vacuity of the hypotheses of `withdrawals_eq`: a one-validator state -/
example :
    let cfg : Config := { (default : Config) with SLOTS_PER_EPOCH := 8, MAX_VALIDATORS_PER_WITHDRAWALS_SWEEP := 16,
                                                    MAX_WITHDRAWALS_PER_PAYLOAD := 4, MAX_EFFECTIVE_BALANCE := 32 }
    let s : State := { (default : State) with validators := [default], balances := [40] }
    expectedWithdrawals cfg s = toRes (Block.get_expected_withdrawals cfg s) := by
  intro cfg s
  exact withdrawals_eq cfg s (by decide) (by decide) (by decide) (by decide)

/-- On an EMPTY registry the two differ (Go: error from the early cursor read; spec: no withdrawals):
the hypothesis `hcur` is needed. Unreachable: a beacon state always has validators. -/
theorem withdrawals_empty_registry_witness (cfg : Config) (s : State) (h : s.validators = []) :
    expectedWithdrawals cfg s = .err ∧ Block.get_expected_withdrawals cfg s = .ok [] := by
  unfold expectedWithdrawals Block.get_expected_withdrawals
  simp [h, withdrawalsLoop, Block.withdrawals_sweep, pure, Except.pure]

/-- (e) `phase0.IsSlashableAttestationData` = the spec's `is_slashable_attestation_data`, for all data. -/
theorem slashable_eq (a b : AttestationData) :
    isSlashableAttestationData a b = Block.is_slashable_attestation_data a b :=
  BeaconBlock.slashable_eq a b

/-- Round 1: the four places where zrnt's algorithm has another shape than the spec, as one statement. -/
theorem M_block_pieces :
    (∀ vs target : List Nat, vs.Pairwise (· < ·) → target.Pairwise (· < ·) → (∀ x ∈ vs, x < marker) →
        zigzagIn vs target = .ok (Block.sortedIntersection vs target)) ∧
    (∀ (cfg : Config) (cur activeCount : Nat) (vals : List Validator) (index : Nat),
        index < vals.length → activeCount = (vals.filter (is_active_validator · cur)).length →
        cfg.CHURN_LIMIT_QUOTIENT ≠ 0 → (∀ v ∈ vals, v.exit_epoch ≤ FAR_FUTURE_EPOCH) →
        maxOf (cur + 1 + cfg.MAX_SEED_LOOKAHEAD) (vals.map (·.exit_epoch)) + 1 + cfg.MIN_VALIDATOR_WITHDRAWABILITY_DELAY < 2 ^ 64 →
        initiateValidatorExit cfg cur activeCount vals index = .ok (initiate_validator_exit_pure cfg cur vals index)) ∧
    (∀ (cfg : Config) (s : State), s.balances.length = s.validators.length → s.validators.length < 2 ^ 64 →
        s.next_withdrawal_validator_index < s.validators.length →
        s.next_withdrawal_index + s.validators.length < 2 ^ 64 →
        expectedWithdrawals cfg s = toRes (Block.get_expected_withdrawals cfg s)) ∧
    (∀ a b : AttestationData, isSlashableAttestationData a b = Block.is_slashable_attestation_data a b) :=
  ⟨zigzag_eq_sorted_inter, initiateExit_eq, withdrawals_eq, slashable_eq⟩

/-! ## Round 2: whole-operation refinements `M = S` (accept/reject AND post-state)

`M` = `Zrnt/Beacon/Impl/BlockM.lean`, the code-shaped model of `PostSlotTransition` and the five `ProcessBlock`s
with the `EpochsContext` as an abstract record `Ctx`; it is the model column of modes `c01`/`c03` (Go = M = S per
line). `toRes` maps every rejection of `S` to `Res.err`. The hypotheses on `Ctx` are what C07/C08/C16 establish for
a real context: the proposer is `get_beacon_proposer_index` (`Zrnt.Proofs.C07.proposers_eq_spec_partial`), the
active count is the number of active validators (C08), the pubkey cache answers as the registry does (`PubkeyOK`,
`Zrnt.Proofs.C16.lookup_refines_history`). -/

/-- (e) `common.ProcessHeader` = `process_block_header` -/
theorem header_eq (cfg : Config) (s : State) (block : SignedBlock) (p : Nat)
    (hp : Block.get_beacon_proposer_index cfg s = .ok p) :
    processHeader s block p = toRes (Block.process_block_header cfg s block) :=
  BlockM.header_eq cfg s block p hp

/-- (e) `phase0.ProcessRandaoReveal` = `process_randao` -/
theorem randao_eq (cfg : Config) (ctx : Ctx) (s : State) (block : SignedBlock) (p : Nat)
    (hp : Block.get_beacon_proposer_index cfg s = .ok p) (hctx : ctx.proposer = some p) (hpv : p < s.validators.length)
    (hlen : s.randao_mixes.length = cfg.EPOCHS_PER_HISTORICAL_VECTOR) (hpos : 0 < cfg.EPOCHS_PER_HISTORICAL_VECTOR) :
    processRandaoReveal cfg ctx s block = toRes (Block.process_randao cfg s block) :=
  BlockM.randao_eq cfg ctx s block p hp hctx hpv hlen hpos

/-- (e) `phase0.ProcessEth1Vote` (counts only when a majority is possible, wrapping products) = `process_eth1_data` -/
theorem eth1vote_eq (cfg : Config) (s : State) (block : SignedBlock)
    (hsmall : cfg.EPOCHS_PER_ETH1_VOTING_PERIOD * cfg.SLOTS_PER_EPOCH * 2 + 2 < 2 ^ 64) :
    processEth1Vote cfg s block.eth1_data = toRes (Block.process_eth1_data cfg s block) :=
  BlockM.eth1vote_eq cfg s block hsmall

/-- (f) `capella.ProcessBLSToExecutionChange` = `process_bls_to_execution_change` -/
theorem blsChange_eq (cfg : Config) (s : State) (op : SignedBLSToExecutionChange) :
    processBLSToExecutionChange s op = toRes (Block.process_bls_to_execution_change cfg s op) :=
  BlockM.blsChange_eq cfg s op

/-- (f) `ProcessExecutionPayload` of bellatrix, capella and deneb = `process_execution_payload` of that fork
(`TimeAtSlot` with its quotient test = `compute_timestamp_at_slot` with the `uint64` range check) -/
theorem payload_eq (cfg : Config) (s : State) (block : SignedBlock) (payload : ExecutionPayload)
    (hf : s.fork ≥ .bellatrix) (hx : payload.fields.extra_data.size ≤ cfg.MAX_EXTRA_DATA_BYTES)
    (hlen : s.randao_mixes.length = cfg.EPOCHS_PER_HISTORICAL_VECTOR) (hpos : 0 < cfg.EPOCHS_PER_HISTORICAL_VECTOR)
    (hsps : 0 < cfg.SECONDS_PER_SLOT) (hg : s.genesis_time < 2 ^ 64) :
    processExecutionPayload cfg s block payload = toRes (Block.process_execution_payload cfg s block payload) :=
  BlockM.payload_eq cfg s block payload hf hx hlen hpos hsps hg

/-- (c) `phase0.ProcessVoluntaryExit` (validation + `InitiateValidatorExit`) = `process_voluntary_exit`, end to end -/
theorem exit_eq (cfg : Config) (ctx : Ctx) (s : State) (exit : SignedVoluntaryExit)
    (hact : ctx.activeCount = (s.validators.filter (is_active_validator · (s.slot / cfg.SLOTS_PER_EPOCH))).length)
    (hq : cfg.CHURN_LIMIT_QUOTIENT ≠ 0) (hreg : RegU64 s.validators) (hsmall : ExitSmall cfg s)
    (hshard : s.slot / cfg.SLOTS_PER_EPOCH + cfg.SHARD_COMMITTEE_PERIOD < 2 ^ 64) :
    processVoluntaryExit cfg ctx s exit = toRes (Block.process_voluntary_exit cfg s exit) :=
  BlockM.exit_eq cfg ctx s exit hact hq hreg hsmall hshard

/-- (b) `phase0.ProcessDeposit` = `process_deposit`: Merkle branch (C19's `specRoot`), the pubkey-cache look-up guarded
by `index < |validators|` = `pubkey ∈ validator_pubkeys`, top-up vs new validator, the altair+ extra appends -/
theorem deposit_eq (cfg : Config) (ctx : Ctx) (s : State) (dep : Deposit)
    (hpk : PubkeyOK s ctx) (hproof : dep.proof.length = Block.DEPOSIT_CONTRACT_TREE_DEPTH + 1)
    (hebi : cfg.EFFECTIVE_BALANCE_INCREMENT ≠ 0) (hidx : s.eth1_deposit_index + 1 < 2 ^ 64)
    (hbal : ∀ b ∈ s.balances, b + dep.data.amount < 2 ^ 64) :
    (processDeposit cfg ctx s dep >>= fun r => Res.ok r.2) = toRes (Block.process_deposit cfg s dep) :=
  BlockM.deposit_eq cfg ctx s dep hpk hproof hebi hidx hbal

/-- (f) `capella.ProcessWithdrawals` = the specification's `process_withdrawals` state update (pure core
`Block.process_withdrawals_pure`, which the monadic `S` is compared with on every evaluation): the element-wise
comparison interleaved with the balance decreases, the withdrawal index, and BOTH branches of the sweep-cursor update,
for every registry size — in particular registries smaller than `MAX_VALIDATORS_PER_WITHDRAWALS_SWEEP`, where the
cursor advances by the full sweep modulo the registry size. -/
theorem withdrawalsApply_eq (cfg : Config) (s : State) (payload : ExecutionPayload) (expected : List Withdrawal)
    (hexp : expectedWithdrawals cfg s = .ok expected)
    (hidx : ∀ w ∈ expected, w.index + 1 < 2 ^ 64 ∧ w.validator_index + 1 < 2 ^ 64)
    (hcur : s.next_withdrawal_validator_index + cfg.MAX_VALIDATORS_PER_WITHDRAWALS_SWEEP < 2 ^ 64)
    (hmax : cfg.MAX_WITHDRAWALS_PER_PAYLOAD ≠ 0) :
    Zrnt.Beacon.BlockM.processWithdrawals cfg s payload =
      BlockM.optRes (Block.process_withdrawals_pure cfg s expected payload.withdrawals) :=
  BlockM.withdrawalsApply_eq cfg s payload expected hexp hidx hcur hmax

/-- the cursor rule itself, spelled out: fewer than `MAX_WITHDRAWALS_PER_PAYLOAD` withdrawals ⇒ the cursor moves by the
whole sweep size modulo the registry size, whatever the registry size -/
example : (Block.process_withdrawals_pure { (default : Config) with MAX_VALIDATORS_PER_WITHDRAWALS_SWEEP := 16, MAX_WITHDRAWALS_PER_PAYLOAD := 4 }
    { (default : State) with validators := List.replicate 12 default, balances := List.replicate 12 0, next_withdrawal_validator_index := 5 } [] []).map
      (·.next_withdrawal_validator_index) = some 9 := by decide

/-- (f) `altair.ProcessSyncAggregate` (as repaired by the `fix:` commit found while stating this theorem: the proposer is
paid per participant, in committee order) = the specification's `process_sync_aggregate` (pure core
`Block.process_sync_aggregate_pure`, compared with the monadic `S` on every evaluation): bitvector sanity, previous-slot
block root, the reward arithmetic (wrapping products are exact under the stated bounds), rewards and clipped penalties
in committee order. `B` bounds the balances so that no balance can reach `2^64` during the loop. -/
theorem syncAggregate_eq (cfg : Config) (ctx : Ctx) (s : State) (agg : SyncAggregate) (T p B : Nat) (committee : SyncCommittee)
    (hsc : s.current_sync_committee = some committee)
    (hp : ctx.proposer = some p) (hidx : ctx.syncIndices = committee.pubkeys.mapM (Block.pubkey_index s))
    (hT : ctx.totalActiveStake = T) (hsq : ctx.totalActiveStakeSqRoot = integer_squareroot T)
    (hclen : committee.pubkeys.length = cfg.SYNC_COMMITTEE_SIZE)
    (hbits : agg.sync_committee_bits.length = 8 * ((cfg.SYNC_COMMITTEE_SIZE + 7) / 8))
    (hpad : (agg.sync_committee_bits.drop cfg.SYNC_COMMITTEE_SIZE).all (· = false) = true)
    (hslot : s.slot + cfg.SLOTS_PER_HISTORICAL_ROOT < 2 ^ 64)
    (h1 : cfg.EFFECTIVE_BALANCE_INCREMENT * cfg.BASE_REWARD_FACTOR < 2 ^ 64)
    (h2 : cfg.EFFECTIVE_BALANCE_INCREMENT * cfg.BASE_REWARD_FACTOR / integer_squareroot T * (T / cfg.EFFECTIVE_BALANCE_INCREMENT) * SYNC_REWARD_WEIGHT < 2 ^ 64)
    (h3 : (Block.sync_rewards cfg T).1 * PROPOSER_WEIGHT < 2 ^ 64)
    (hB : ∀ x ∈ s.balances, x ≤ B)
    (hsum : B + cfg.SYNC_COMMITTEE_SIZE * ((Block.sync_rewards cfg T).1 + (Block.sync_rewards cfg T).2) < 2 ^ 64)
    (hnz : cfg.EFFECTIVE_BALANCE_INCREMENT ≠ 0 ∧ cfg.SLOTS_PER_EPOCH ≠ 0 ∧ cfg.SYNC_COMMITTEE_SIZE ≠ 0 ∧ integer_squareroot T ≠ 0) :
    Zrnt.Beacon.BlockM.processSyncAggregate cfg ctx s agg = BlockM.optRes (Block.process_sync_aggregate_pure cfg s agg T p) :=
  BlockM.syncAggregate_eq cfg ctx s agg T p B committee hsc hp hidx hT hsq hclen hbits hpad hslot h1 h2 h3 hB hsum hnz

/-- Why the repair was needed: with the proposer paid once after the loop, a proposer that is itself a non-participating
member with a balance below the participant reward ends with another balance than the specification's
(committee [1, 0], bits [1, 0], proposer 0, balances [0, 5]: the spec pays 0 first — 0+3 — and then clips 3−10 to 0;
paying after the loop gives 0−10 → 0, then +3). -/
example : Block.sync_apply_pure 10 3 0 [1, 0] [true, false] [0, 5] = some [0, 15] := by decide

/-- The proposer the context caches for the slot stays the specification's `get_beacon_proposer_index` while a block
is processed: it depends only on slot, randao history, effective balances and current-epoch activity (`SameDuties`),
none of which an operation changes. (The frame lemma for composing the operation theorems.) -/
theorem proposer_frame (cfg : Config) (s s' : State) (h : SameDuties cfg s s') :
    Block.get_beacon_proposer_index cfg s' = Block.get_beacon_proposer_index cfg s :=
  BlockM.proposer_frame cfg s s' h

/-- `WF_preserved_block_partial`: the registry invariant `WF` of C02 (slashed ⇒ exit initiated; exit ≤ withdrawable;
activation ≤ exit) is preserved by the block operations that write the registry and are proved so far: an accepted
voluntary exit, a deposit's new validator, a BLS-to-execution change. NOT yet proved: `slash_validator` (proposer and
attester slashings). With C02's `WF_preserved_epoch` and C13's genesis theorems this is the induction that
establishes the reachable-state hypotheses. -/
theorem WF_preserved_block_partial :
    (∀ (cfg : Config) (ctx : Ctx) (s s' : State) (exit : SignedVoluntaryExit),
        ctx.activeCount = (s.validators.filter (is_active_validator · (s.slot / cfg.SLOTS_PER_EPOCH))).length →
        cfg.CHURN_LIMIT_QUOTIENT ≠ 0 → RegU64 s.validators → ExitSmall cfg s →
        s.slot / cfg.SLOTS_PER_EPOCH + cfg.SHARD_COMMITTEE_PERIOD < 2 ^ 64 →
        Lemmas.WF s.validators → Block.process_voluntary_exit cfg s exit = .ok s' → Lemmas.WF s'.validators) ∧
    (∀ (vals : List Validator) (pk wc : Bytes) (eff : Nat), Lemmas.WF vals →
        Lemmas.WF (vals ++ [⟨pk, wc, eff, false, FAR_FUTURE_EPOCH, FAR_FUTURE_EPOCH, FAR_FUTURE_EPOCH, FAR_FUTURE_EPOCH⟩])) ∧
    (∀ (vals : List Validator) (i : Nat) (v : Validator) (wc : Bytes), Lemmas.WF vals → vals[i]? = some v →
        Lemmas.WF (vals.set i { v with withdrawal_credentials := wc })) :=
  ⟨fun cfg ctx s s' exit h1 h2 h3 h4 h5 h6 h7 => BlockM.WF_preserved_exit cfg ctx s s' exit h1 h2 h3 h4 h5 h6 h7,
   fun vals pk wc eff h => BlockM.WF_append_deposit vals pk wc eff h,
   fun vals i v wc h hv => BlockM.WF_set_credentials vals i v wc h hv⟩

/-- non-vacuity of the round-2 hypotheses: a one-validator state and the context `ctxOf` built from it -/
def exampleState : State :=
  let d : State := default
  { d with validators := [default], balances := [0], randao_mixes := [default] }

example : PubkeyOK exampleState (Zrnt.Beacon.BlockM.ctxOf default exampleState) := fun _ => rfl
example : RegU64 exampleState.validators := by
  intro v hv
  have : exampleState.validators = [default] := rfl
  rw [this] at hv; simp at hv; subst hv; decide
example : ExitSmall { (default : Config) with SLOTS_PER_EPOCH := 8 } exampleState := by
  unfold ExitSmall; decide

/-! ## Round 3: attestations, slashings, composition -/

/-- (a) `phase0.ProcessAttestation` = phase0 `process_attestation` (pure core `Block.process_attestation_phase0_pure`,
which the monadic `S` is compared with on every evaluation). `count`, `committee`, `proposer` are what the context
answers; C07 says they are the specification's (`sim_attestation_phase0` instantiates them so). -/
theorem attestation_phase0_eq (cfg : Config) (ctx : Ctx) (s : State) (att : Attestation)
    (count : Option Nat) (committee : Option (List Nat)) (proposer : Option Nat)
    (hfork : s.fork = .phase0)
    (hcc : ctx.committeeCount att.data.target.epoch = count)
    (hcom : ctx.committee att.data.slot att.data.index = committee)
    (hprop : ctx.proposer = proposer)
    (hnd : ∀ c, committee = some c → c.Nodup)
    (hwf : att.bits_wellformed = true) (hmaxbits : att.aggregation_bits.length ≤ cfg.MAX_VALIDATORS_PER_COMMITTEE)
    (hspe : 0 < cfg.SLOTS_PER_EPOCH) (hmin : cfg.MIN_ATTESTATION_INCLUSION_DELAY ≤ cfg.SLOTS_PER_EPOCH)
    (hcur : s.slot + 2 * cfg.SLOTS_PER_EPOCH < 2 ^ 64) :
    processAttestationPhase0 cfg ctx s att =
      BlockM.optRes (Block.process_attestation_phase0_pure cfg s att count committee proposer) :=
  BlockM.attestation_phase0_eq cfg ctx s att count committee proposer hfork hcc hcom hprop hnd hwf hmaxbits hspe hmin hcur

/-- (a) `altair.ProcessAttestation` / `deneb.ProcessAttestation` = altair … deneb `process_attestation` (pure core):
flag indices (the `integer_squareroot(SLOTS_PER_EPOCH)` bound of the timely-source flag, the target flag with and —
deneb — without the delay bound, the head flag at the minimal delay, the short-circuit block-root look-ups), the
participation update (a flag byte only gains the newly set flags and only those count for the numerator), and the
proposer reward `numerator // ((WEIGHT_DENOMINATOR − PROPOSER_WEIGHT) · WEIGHT_DENOMINATOR // PROPOSER_WEIGHT)`.
`R` bounds the base rewards so that the wrapping sums of the code are exact. -/
theorem attestation_altair_eq (cfg : Config) (ctx : Ctx) (s : State) (att : Attestation)
    (count : Option Nat) (committee : Option (List Nat)) (proposer : Option Nat) (T R : Nat)
    (hcc : ctx.committeeCount att.data.target.epoch = count)
    (hcom : ctx.committee att.data.slot att.data.index = committee)
    (hprop : ctx.proposer = proposer)
    (hsq : ctx.totalActiveStakeSqRoot = integer_squareroot T)
    (heb : ctx.effectiveBalances = s.validators.map (·.effective_balance))
    (hnd : ∀ c, committee = some c → c.Nodup)
    (hwf : att.bits_wellformed = true) (hmaxbits : att.aggregation_bits.length ≤ cfg.MAX_VALIDATORS_PER_COMMITTEE)
    (hspe : 0 < cfg.SLOTS_PER_EPOCH) (hmin : cfg.MIN_ATTESTATION_INCLUSION_DELAY ≤ cfg.SLOTS_PER_EPOCH)
    (hmin1 : 1 ≤ cfg.MIN_ATTESTATION_INCLUSION_DELAY)
    (hcur : s.slot + 2 * cfg.SLOTS_PER_EPOCH < 2 ^ 64)
    (hsphr : 2 * cfg.SLOTS_PER_EPOCH ≤ cfg.SLOTS_PER_HISTORICAL_ROOT)
    (hroots : s.block_roots.length = cfg.SLOTS_PER_HISTORICAL_ROOT)
    (hslot : s.slot + cfg.SLOTS_PER_HISTORICAL_ROOT < 2 ^ 64)
    (hnz : cfg.EFFECTIVE_BALANCE_INCREMENT ≠ 0 ∧ integer_squareroot T ≠ 0)
    (hbrf : cfg.EFFECTIVE_BALANCE_INCREMENT * cfg.BASE_REWARD_FACTOR < 2 ^ 64)
    (hR : ∀ v ∈ s.validators, v.effective_balance / cfg.EFFECTIVE_BALANCE_INCREMENT *
      (cfg.EFFECTIVE_BALANCE_INCREMENT * cfg.BASE_REWARD_FACTOR / integer_squareroot T) ≤ R)
    (hsum : cfg.MAX_VALIDATORS_PER_COMMITTEE * (R * 54) < 2 ^ 64)
    (hbal : ∀ b ∈ s.balances, b + cfg.MAX_VALIDATORS_PER_COMMITTEE * (R * 54) < 2 ^ 64)
    (hpc : s.current_epoch_participation.length = s.validators.length ∧ ∀ e ∈ s.current_epoch_participation, e < 256)
    (hpp : s.previous_epoch_participation.length = s.validators.length ∧ ∀ e ∈ s.previous_epoch_participation, e < 256) :
    processAttestationAltair cfg ctx s att =
      BlockM.optRes (Block.process_attestation_altair_pure cfg s att count committee proposer T) :=
  BlockM.attestation_altair_eq cfg ctx s att count committee proposer T R hcc hcom hprop hsq heb hnd hwf hmaxbits hspe hmin hmin1 hcur
    hsphr hroots hslot hnz hbrf hR hsum hbal hpc hpp

/-- (a) deneb (EIP-7045): the inclusion window of the specification has no upper bound — an attestation is on time as
soon as its target epoch is the previous or the current one — and the target flag has no delay bound. The code
(`attestationTimingOk` with the deneb switch, the `M` of `attestation_altair_eq`) decides exactly that. -/
theorem attestation_deneb_eq (cfg : Config) (s : State) (data : AttestationData) (hfork : s.fork ≥ .deneb)
    (hspe : 0 < cfg.SLOTS_PER_EPOCH) (hmin : cfg.MIN_ATTESTATION_INCLUSION_DELAY ≤ cfg.SLOTS_PER_EPOCH)
    (hcur : s.slot + 2 * cfg.SLOTS_PER_EPOCH < 2 ^ 64) :
    attestationTimingOk cfg.SLOTS_PER_EPOCH cfg.MIN_ATTESTATION_INCLUSION_DELAY true s.slot data.slot data.target.epoch =
      ((decide (data.target.epoch = s.slot / cfg.SLOTS_PER_EPOCH - 1) || decide (data.target.epoch = s.slot / cfg.SLOTS_PER_EPOCH)) &&
        decide (data.target.epoch = data.slot / cfg.SLOTS_PER_EPOCH) &&
        decide (data.slot + cfg.MIN_ATTESTATION_INCLUSION_DELAY ≤ s.slot)) := by
  have h := BlockM.timing_pure_eq cfg s data hspe hmin hcur
  have hd : decide (s.fork ≥ Fork.deneb) = true := by simpa using hfork
  rw [hd] at h
  rw [h]
  unfold Block.attestation_timing_pure
  simp [hd]

/-- the participation update of one attester, spelled out: a validator that already holds the target flag (byte 2) and
is attested again with source+target (mask 3) gains the source flag only and only its weight 14 counts; a validator
with no flags gains both (weights 14 + 26) -/
example : Block.attestation_flags_one (fun f => [0, 1].contains f) 10 2 0 = (3, 140) ∧
    Block.attestation_flags_one (fun f => [0, 1].contains f) 10 0 0 = (3, 400) ∧
    Block.attestation_flags_one (fun f => [0, 1].contains f) 10 3 7 = (3, 7) := by decide

/-- (d) `phase0.SlashValidator(…, nil)` = `slash_validator` (pure core `Block.slash_validator_pure`) -/
theorem slash_eq (cfg : Config) (ctx : Ctx) (s : State) (idx p : Nat)
    (hp : ctx.proposer = some p)
    (hact : ctx.activeCount = (s.validators.filter (is_active_validator · (s.slot / cfg.SLOTS_PER_EPOCH))).length)
    (hq : cfg.CHURN_LIMIT_QUOTIENT ≠ 0) (hreg : RegU64 s.validators) (hsmall : ExitSmall cfg s) (hs : SlashSmall cfg s)
    (hz : cfg.EPOCHS_PER_SLASHINGS_VECTOR ≠ 0 ∧ min_slashing_penalty_quotient cfg s.fork ≠ 0 ∧
          cfg.WHISTLEBLOWER_REWARD_QUOTIENT ≠ 0 ∧ cfg.PROPOSER_REWARD_QUOTIENT ≠ 0) :
    slashValidator cfg ctx s idx = BlockM.optRes (Block.slash_validator_pure cfg s idx p) :=
  BlockM.slash_eq cfg ctx s idx p hp hact hq hreg hsmall hs hz

/-- the run-time comparison of the monadic `slash_validator` of `S` with its pure core, PROVED: under the same
hypotheses the monadic version (exit initiation, slashed flag, slashings vector, penalty, proposer index of the state
AFTER these writes — equal to the block's proposer by `proposer_frame` —, rewards) is the pure core -/
theorem slash_link (cfg : Config) (s : State) (i p : Nat)
    (hp : Block.get_beacon_proposer_index cfg s = .ok p)
    (hq : cfg.CHURN_LIMIT_QUOTIENT ≠ 0) (hreg : RegU64 s.validators) (hsmall : ExitSmall cfg s) (hs : SlashSmall cfg s)
    (hz : cfg.EPOCHS_PER_SLASHINGS_VECTOR ≠ 0 ∧ min_slashing_penalty_quotient cfg s.fork ≠ 0 ∧
          cfg.WHISTLEBLOWER_REWARD_QUOTIENT ≠ 0 ∧ cfg.PROPOSER_REWARD_QUOTIENT ≠ 0) :
    toRes (Block.slash_validator cfg s i) = BlockM.optRes (Block.slash_validator_pure cfg s i p) :=
  BlockM.slash_link cfg s i p hp hq hreg hsmall hs hz

/-- non-vacuity of the magnitude hypotheses: a one-validator state with a one-entry slashings vector -/
def exampleState2 : State :=
  let d : State := default
  { d with validators := [default], balances := [0], randao_mixes := [default], slashings := [0] }

example : SlashSmall { (default : Config) with SLOTS_PER_EPOCH := 8, EPOCHS_PER_SLASHINGS_VECTOR := 1 } exampleState2 := by
  refine ⟨by decide, ?_, ?_, ?_, rfl⟩
  · intro x hx v hv
    have hx' : x = 0 := by simpa [exampleState2] using hx
    have hv' : v = default := by simpa [exampleState2] using hv
    subst hx'; subst hv'; decide
  · intro b hb v hv
    have hb' : b = 0 := by simpa [exampleState2] using hb
    have hv' : v = default := by simpa [exampleState2] using hv
    subst hb'; subst hv'; decide
  · intro v hv
    have hv' : v = default := by simpa [exampleState2] using hv
    subst hv'; decide

/-- (d) `phase0.ProcessProposerSlashing` = `process_proposer_slashing` -/
theorem proposerSlashing_eq (cfg : Config) (ctx : Ctx) (s : State) (ps : ProposerSlashing) (p : Nat)
    (hp : ctx.proposer = some p) (hps : Block.get_beacon_proposer_index cfg s = .ok p)
    (hact : ctx.activeCount = (s.validators.filter (is_active_validator · (s.slot / cfg.SLOTS_PER_EPOCH))).length)
    (hq : cfg.CHURN_LIMIT_QUOTIENT ≠ 0) (hreg : RegU64 s.validators) (hsmall : ExitSmall cfg s) (hs : SlashSmall cfg s)
    (hz : cfg.EPOCHS_PER_SLASHINGS_VECTOR ≠ 0 ∧ min_slashing_penalty_quotient cfg s.fork ≠ 0 ∧
          cfg.WHISTLEBLOWER_REWARD_QUOTIENT ≠ 0 ∧ cfg.PROPOSER_REWARD_QUOTIENT ≠ 0) :
    processProposerSlashing cfg ctx s ps = toRes (Block.process_proposer_slashing cfg s ps) :=
  BlockM.proposerSlashing_eq cfg ctx s ps p hp hps hact hq hreg hsmall hs hz

/-- (d) `phase0.ProcessAttesterSlashing` = `process_attester_slashing`: slashable-data predicate, both indexed
attestations, `ZigZagJoin` = the sorted intersection, and the slashings in that order. `SlashInv … k st` bundles what
`slash_eq` needs about a state with room for `k` more slashings (proposer, active count, `RegU64`, C02's exit-queue
budget `qmax + farCount ≤ C`, a bound `Bm` on effective balances with `k·Bm` of headroom in the slashings vector and
`2k·Bm` in the balances); one accepted slashing takes `SlashInv (k+1)` to `SlashInv k` (`SlashInv_step`). -/
theorem attesterSlashing_eq (cfg : Config) (ctx : Ctx) (s : State) (op : AttesterSlashing) (p Bm C : Nat)
    (hp : ctx.proposer = some p)
    (hinv : SlashInv cfg s p ctx.activeCount Bm C cfg.MAX_VALIDATORS_PER_COMMITTEE s)
    (hlen1 : op.attestation_1.attesting_indices.length ≤ cfg.MAX_VALIDATORS_PER_COMMITTEE)
    (hlen2 : op.attestation_2.attesting_indices.length ≤ cfg.MAX_VALIDATORS_PER_COMMITTEE)
    (hvl : s.validators.length ≤ marker)
    (hq : cfg.CHURN_LIMIT_QUOTIENT ≠ 0)
    (hz : cfg.EPOCHS_PER_SLASHINGS_VECTOR ≠ 0 ∧ min_slashing_penalty_quotient cfg s.fork ≠ 0 ∧
          cfg.WHISTLEBLOWER_REWARD_QUOTIENT ≠ 0 ∧ cfg.PROPOSER_REWARD_QUOTIENT ≠ 0)
    (hC : C + 1 + cfg.MIN_VALIDATOR_WITHDRAWABILITY_DELAY < 2 ^ 64)
    (hepoch : s.slot / cfg.SLOTS_PER_EPOCH + cfg.EPOCHS_PER_SLASHINGS_VECTOR < 2 ^ 64)
    (hBm : Bm * PROPOSER_WEIGHT < 2 ^ 64) :
    processAttesterSlashing cfg ctx s op = toRes (Block.process_attester_slashing cfg s op) :=
  BlockM.attesterSlashing_eq cfg ctx s op p Bm C hp hinv hlen1 hlen2 hvl hq hz hC hepoch hBm

/-- `WF` under slashing: an accepted `slash_validator` of a slashable validator keeps the registry invariant `WF` of
C02, its exit-queue budget `qmax + farCount ≤ C`, the list lengths and the slot — the parts of C02's `Q` that a slashing
touches. -/
theorem WF_preserved_slashing (cfg : Config) (st st' : State) (i p C : Nat) (v0 : Validator)
    (hwf : Lemmas.WF st.validators)
    (hb : Lemmas.qmax cfg (st.slot / cfg.SLOTS_PER_EPOCH) st.validators + Lemmas.farCount st.validators ≤ C)
    (hC : C < FAR_FUTURE_EPOCH)
    (hv0 : st.validators[i]? = some v0) (hsl : is_slashable_validator v0 (st.slot / cfg.SLOTS_PER_EPOCH) = true)
    (hok : Block.slash_validator_pure cfg st i p = some st') :
    Lemmas.WF st'.validators ∧
    Lemmas.qmax cfg (st.slot / cfg.SLOTS_PER_EPOCH) st'.validators + Lemmas.farCount st'.validators ≤ C ∧
    st'.validators.length = st.validators.length ∧ st'.balances.length = st.balances.length ∧ st'.slot = st.slot :=
  BlockM.WF_slash cfg st st' i p C v0 hwf hb hC hv0 hsl hok

/-- `processBlock_eq`, every fork: given the operation steps `OpSteps` for an invariant `Inv` (per operation kind:
under `Inv` the model simulates the specification — proved, `sim_*` — and keeps `Inv`), `ProcessBlock` of the state's
fork simulates `process_block`: whenever the specification accepts the block, the model accepts it with the same
post-state; whenever the specification rejects it (`invalid`), the model rejects it; and the model never panics. The
block must be a value of the block type (`check_types`: the per-element SSZ limits that zrnt enforces when decoding). -/
theorem processBlock_eq {cfg : Config} {block : SignedBlock} {F : Fork} {Inv : Nat → Ctx → State → Prop}
    (H : OpSteps cfg block F Inv) (k : Nat) (ctx : Ctx) (st : State) (hi : Inv (BlockM.blockNeed block k) ctx st)
    (htyped : Block.check_types cfg block = .ok ()) :
    Sim (Block.process_block cfg st block) (processBlock cfg ctx st block) ∧
    ∀ st', processBlock cfg ctx st block = .ok st' → ∃ ctx', Inv k ctx' st' :=
  ⟨BlockM.processBlock_sim H k ctx st hi htyped, BlockM.processBlock_inv H k ctx st hi⟩

/-- `M_block_refines_S_partial` — the C01 direction of `processBlock_eq` and of `postSlotTransition_eq`: for every
block the specification accepts, the model accepts with the same post-state. FULL statement: the same for
`Inv := ` "reachable, `ctx = ctxOf cfg st`" without the premise `OpSteps`; missing for that: the preservation halves of
`OpSteps` for one invariant implying every operation's hypotheses (see the file header). -/
theorem M_block_refines_S_partial {cfg : Config} {block : SignedBlock} {F : Fork} {Inv : Nat → Ctx → State → Prop}
    (H : OpSteps cfg block F Inv) (k : Nat) (ctx : Ctx) (st : State) (hi : Inv (BlockM.blockNeed block k) ctx st)
    (htyped : Block.check_types cfg block = .ok ()) (r : Bytes) (hroot : block.o_post_root = some r) :
    (∀ post, Block.process_block cfg st block = .ok post → processBlock cfg ctx st block = .ok post) ∧
    (∀ post, Block.state_transition_post_slots cfg st block = .ok post → postSlotTransition cfg ctx st block = .ok post) :=
  ⟨(BlockM.processBlock_sim H k ctx st hi htyped).1.1, (BlockM.postSlot_sim H k ctx st hi htyped r hroot).1.1⟩

/-- `postSlotTransition_eq`: block signature (proposer key, oracle Boolean), `process_block`, state-root check —
`common.PostSlotTransition` with result validation simulates `state_transition` after `process_slots`. -/
theorem postSlotTransition_eq {cfg : Config} {block : SignedBlock} {F : Fork} {Inv : Nat → Ctx → State → Prop}
    (H : OpSteps cfg block F Inv) (k : Nat) (ctx : Ctx) (st : State) (hi : Inv (BlockM.blockNeed block k) ctx st)
    (htyped : Block.check_types cfg block = .ok ()) (r : Bytes) (hroot : block.o_post_root = some r) :
    Sim (Block.state_transition_post_slots cfg st block) (postSlotTransition cfg ctx st block) :=
  BlockM.postSlot_sim H k ctx st hi htyped r hroot

/-- `stateTransition_eq` — `process_slots; verify signature; process_block; state-root check`: the code's
`ProcessSlots` (C02's model `Impl.processSlots`, one `SlotInputs` per slot) followed by `PostSlotTransition` simulates
the specification's `process_slots` (pure form) followed by `state_transition_post_slots`. The slots part is C02's
FULL `processSlots_eq` under its invariant `Q` for the pre-state; the block part needs `Inv` for the state the slots
reach, with the context of that state. -/
theorem stateTransition_eq {cfg : Config} {block : SignedBlock} {F : Fork} {Inv : Nat → Ctx → State → Prop}
    (H : OpSteps cfg block F Inv) (k : Nat) (inps : List SlotInputs) (s : State) (C N : Nat) (ctx : Ctx)
    (hspe : 0 < cfg.SLOTS_PER_EPOCH) (hQ : Lemmas.Q cfg C N (get_current_epoch cfg s) s)
    (hbound : C + inps.length + N + 1 < FAR_FUTURE_EPOCH)
    (hi : Inv (BlockM.blockNeed block k) ctx (process_slots_pure cfg inps s))
    (htyped : Block.check_types cfg block = .ok ()) (r : Bytes) (hroot : block.o_post_root = some r) :
    Sim (Block.state_transition_post_slots cfg (process_slots_pure cfg inps s) block)
      (postSlotTransition cfg ctx (Impl.processSlots cfg inps s) block) := by
  rw [Zrnt.Proofs.C02.processSlots_eq cfg inps s C N hspe hQ hbound]
  exact BlockM.postSlot_sim H k ctx _ hi htyped r hroot

/-- `M_block_refines_S` / `M_sound` WITHOUT the premise `OpSteps`, for phase0 blocks that carry no operations:
container-fork check, type limits, header, RANDAO, eth1 vote, operation-count limits and the deposit-count rule; the
invariant (the context's proposer is the specification's, registry and randao vector as they are) is carried through
header, RANDAO mix-in and eth1 vote by the frame lemmas. For EVERY phase0 state and context with these three facts. -/
theorem processBlock_noOps_eq (cfg : Config) (ctx : Ctx) (st : State) (block : SignedBlock) (p : Nat) (hno : NoOps block)
    (hfork : st.fork = .phase0) (hctx : ctx.proposer = some p) (hp : Block.get_beacon_proposer_index cfg st = .ok p)
    (hplt : p < st.validators.length) (hmix : st.randao_mixes.length = cfg.EPOCHS_PER_HISTORICAL_VECTOR)
    (hpos : 0 < cfg.EPOCHS_PER_HISTORICAL_VECTOR)
    (hlook : (cfg.MIN_SEED_LOOKAHEAD + 1) % cfg.EPOCHS_PER_HISTORICAL_VECTOR ≠ 0)
    (hsmall : cfg.EPOCHS_PER_ETH1_VOTING_PERIOD * cfg.SLOTS_PER_EPOCH * 2 + 2 < 2 ^ 64)
    (htyped : Block.check_types cfg block = .ok ()) :
    Sim (Block.process_block cfg st block) (processBlock cfg ctx st block) :=
  BlockM.processBlock_noOps cfg ctx st block p hno hfork hctx hp hplt hmix hpos hlook hsmall htyped

/-- non-vacuity of `NoOps` and of the type-limit hypothesis: the default block -/
example : NoOps (default : SignedBlock) := ⟨rfl, rfl, rfl, rfl, rfl, rfl, rfl, rfl⟩
example : Block.check_types default (default : SignedBlock) = .ok () := rfl

/-- Frame lemmas for the other fields of the context (`proposer_frame` is the one for the proposer): the committee
count and the committees of the attestable epochs and the total active balance depend on slot, randao history,
effective balances and activity up to the current epoch only (`SameCommittees`) — which `initiate_validator_exit`
(voluntary exits, slashings) keeps, because the exit epoch it assigns lies after the current epoch. -/
theorem ctx_frames (cfg : Config) (s s' : State) (h : SameCommittees cfg s s') :
    (∀ e, e ≤ get_current_epoch cfg s → get_committee_count_per_slot cfg s' e = get_committee_count_per_slot cfg s e) ∧
    (∀ slot index, compute_epoch_at_slot cfg slot ≤ get_current_epoch cfg s →
      get_beacon_committee cfg s' slot index = get_beacon_committee cfg s slot index) ∧
    get_total_active_balance cfg s' = get_total_active_balance cfg s ∧
    Block.get_beacon_proposer_index cfg s' = Block.get_beacon_proposer_index cfg s :=
  ⟨fun e he => BlockM.committee_count_frame cfg s s' h e he,
   fun slot index he => BlockM.committee_frame cfg s s' h slot index he,
   BlockM.total_active_balance_frame cfg s s' h,
   BlockM.proposer_frame cfg s s' h.duties⟩

/-- an exit initiation keeps `SameCommittees` -/
theorem sameCommittees_initiate (cfg : Config) (s s' : State) (i : Nat)
    (hcur : get_current_epoch cfg s < FAR_FUTURE_EPOCH) (hslot : s'.slot = s.slot) (hmix : s'.randao_mixes = s.randao_mixes)
    (hvals : s'.validators = initiate_validator_exit_pure cfg (get_current_epoch cfg s) s.validators i) :
    SameCommittees cfg s s' :=
  BlockM.sameCommittees_initiate cfg s s' i hcur hslot hmix hvals

/-- … and for phase0 blocks whose only operations are voluntary exits (`OnlyExits`), with the invariant `ExitInv`: the
context's proposer and active count are the specification's, C02's exit-queue budget `qmax + farCount ≤ C`, registry
epochs inside `uint64`. Every exit re-establishes it: the proposer and the active count by the frame lemmas (the exit
epoch lies after the current epoch), the budget by C02's accounting (`farCount` drops by one, `qmax` grows by at most
one), so ANY number of exits in the block is covered. -/
theorem processBlock_exits_eq (cfg : Config) (ctx : Ctx) (st : State) (block : SignedBlock) (p C : Nat) (hno : OnlyExits block)
    (hi : ExitInv cfg p C ctx st)
    (hpos : 0 < cfg.EPOCHS_PER_HISTORICAL_VECTOR)
    (hlook : (cfg.MIN_SEED_LOOKAHEAD + 1) % cfg.EPOCHS_PER_HISTORICAL_VECTOR ≠ 0)
    (hsmall : cfg.EPOCHS_PER_ETH1_VOTING_PERIOD * cfg.SLOTS_PER_EPOCH * 2 + 2 < 2 ^ 64)
    (hq : cfg.CHURN_LIMIT_QUOTIENT ≠ 0) (hC : C + 1 + cfg.MIN_VALIDATOR_WITHDRAWABILITY_DELAY < 2 ^ 64)
    (htyped : Block.check_types cfg block = .ok ()) :
    Sim (Block.process_block cfg st block) (processBlock cfg ctx st block) :=
  BlockM.processBlock_exits cfg ctx st block p C hno hi hpos hlook hsmall hq hC htyped

/-- … and for phase0 blocks whose operations are proposer slashings, attester slashings and voluntary exits, ANY numbers
of them (`SlashExitBlock`): `M_block_refines_S` and `M_sound` without the premise `OpSteps`. `P0Inv … k ctx st` is the
counter-indexed invariant (`SlashInv` with `k · MAX_VALIDATORS_PER_COMMITTEE` slashings of headroom relative to the
block's pre-state, the context's proposer / active count = the specification's, C02's exit-queue budget); the pre-state
needs `blockNeed block k` units — one per operation of the block plus six — and the state after an accepted block
satisfies the invariant again with `k` units (so blocks chain). `P0Const`: the configuration facts (non-zero quotients,
`uint64` room for the epochs, `(MIN_SEED_LOOKAHEAD + 1) mod EPOCHS_PER_HISTORICAL_VECTOR ≠ 0`). -/
theorem processBlock_slashExit_eq (cfg : Config) (S0 : State) (p Bm C k : Nat) (K : P0Const cfg S0 Bm C) (hF : S0.fork = .phase0) (ctx : Ctx) (block : SignedBlock)
    (hb : SlashExitBlock cfg block) (hi : P0Inv cfg S0 p Bm C (BlockM.blockNeed block k) ctx S0)
    (htyped : Block.check_types cfg block = .ok ()) :
    Sim (Block.process_block cfg S0 block) (processBlock cfg ctx S0 block) ∧
    ∀ st', processBlock cfg ctx S0 block = .ok st' → ∃ ctx', P0Inv cfg S0 p Bm C k ctx' st' :=
  BlockM.processBlock_slashExit cfg S0 p Bm C k K hF ctx block hb hi htyped

/-- … and for phase0 blocks whose only operations are attestations, any number of them (`OnlyAttestations`): window,
committee index, committee and bit list, source checkpoint, pending-list limit, indexed form and signature, and the
appended pending attestation. `AttInv`: the context's proposer, committee counts and committees are the
specification's for the attestable epochs (C07), committees are duplicate-free; carried through header, RANDAO mix-in
(which needs `(MIN_SEED_LOOKAHEAD + 2) mod EPOCHS_PER_HISTORICAL_VECTOR ≠ 0` for the previous epoch's attester seed),
eth1 vote and every attestation. -/
theorem processBlock_attestations_eq (cfg : Config) (ctx : Ctx) (st : State) (block : SignedBlock) (p : Nat)
    (hno : OnlyAttestations cfg block) (hi : AttInv cfg p ctx st)
    (hspe : 0 < cfg.SLOTS_PER_EPOCH) (hmin : cfg.MIN_ATTESTATION_INCLUSION_DELAY ≤ cfg.SLOTS_PER_EPOCH)
    (hpos : 0 < cfg.EPOCHS_PER_HISTORICAL_VECTOR)
    (hlook : (cfg.MIN_SEED_LOOKAHEAD + 1) % cfg.EPOCHS_PER_HISTORICAL_VECTOR ≠ 0)
    (hlook2 : (cfg.MIN_SEED_LOOKAHEAD + 2) % cfg.EPOCHS_PER_HISTORICAL_VECTOR ≠ 0)
    (hsmall : cfg.EPOCHS_PER_ETH1_VOTING_PERIOD * cfg.SLOTS_PER_EPOCH * 2 + 2 < 2 ^ 64)
    (htyped : Block.check_types cfg block = .ok ()) :
    Sim (Block.process_block cfg st block) (processBlock cfg ctx st block) :=
  BlockM.processBlock_attestations cfg ctx st block p hno hi hspe hmin hpos hlook hlook2 hsmall htyped

/-- … and for ARBITRARY phase0 blocks without deposits (`Phase0NoDeposits`: proposer slashings, attester slashings,
attestations and voluntary exits in any numbers and any mix): `M_block_refines_S` and `M_sound` without the premise
`OpSteps`. `P0AInv … k ctx st` = `P0Inv` (slashing budget, proposer, active count, exit-queue budget) and the context's
committees = the specification's for the attestable epochs, kept by every operation (exits and slashings keep the
committees because the exit epoch they assign lies after the current epoch; the slashing loop by transitivity). The
state after an accepted block satisfies the invariant with the budget that is left. -/
theorem processBlock_phase0NoDeposits_eq (cfg : Config) (S0 : State) (p Bm C k : Nat) (K : P0Const cfg S0 Bm C) (KA : P0AConst cfg) (hF : S0.fork = .phase0)
    (ctx : Ctx) (block : SignedBlock) (hb : Phase0NoDeposits cfg block)
    (hi : P0AInv cfg S0 p Bm C (BlockM.blockNeed block k) ctx S0) (htyped : Block.check_types cfg block = .ok ()) :
    Sim (Block.process_block cfg S0 block) (processBlock cfg ctx S0 block) ∧
    ∀ st', processBlock cfg ctx S0 block = .ok st' → ∃ ctx', P0AInv cfg S0 p Bm C k ctx' st' :=
  BlockM.processBlock_phase0NoDeposits cfg S0 p Bm C k K KA hF ctx block hb hi htyped

/-- `processBlock_phase0_eq` — for EVERY phase0 block (`Phase0Block`: the container of the fork, every list element
inside its type limits, deposit amounts within one unit `MAX_VALIDATORS_PER_COMMITTEE · 2·Bm` of the balance budget):
`phase0.ProcessBlock` simulates `process_block`, with NO premise about the operations, and the state after an accepted
block satisfies the invariant again with the budget that is left (so blocks chain).
`P0DInv … k ctx st` (relative to the block's pre-state `S0`): the context's proposer, active count, committee counts and
committees are the specification's (C07/C08), the pubkey cache answers as the registry (C16), C02's exit-queue budget
`qmax + farCount ≤ C − k`, registry epochs inside `uint64`, effective balances `≤ Bm`, and `k` units of headroom in the
slashings vector, the balances and the deposit index. `P0Const`/`P0AConst`/`P0DConst`: configuration facts (non-zero
quotients, `uint64` room for the epochs, the two seed-lookahead conditions, `MAX_EFFECTIVE_BALANCE ≤ Bm`,
`VALIDATOR_REGISTRY_LIMIT` below the `ZigZagJoin` marker). -/
theorem processBlock_phase0_eq (cfg : Config) (S0 : State) (p Bm C k : Nat) (K : P0Const cfg S0 Bm C) (KA : P0AConst cfg) (KD : P0DConst cfg Bm)
    (hF : S0.fork = .phase0) (ctx : Ctx) (block : SignedBlock) (hb : Phase0Block cfg Bm block)
    (hi : P0DInv cfg S0 p Bm C (BlockM.blockNeed block k) ctx S0) (htyped : Block.check_types cfg block = .ok ()) :
    Sim (Block.process_block cfg S0 block) (processBlock cfg ctx S0 block) ∧
    ∀ st', processBlock cfg ctx S0 block = .ok st' → ∃ ctx', P0DInv cfg S0 p Bm C k ctx' st' :=
  BlockM.processBlock_phase0 cfg S0 p Bm C k K KA KD hF ctx block hb hi htyped

/-- `M_block_refines_S_phase0` — C01 for phase0 WITHOUT the premise `OpSteps`: every phase0 block the specification
accepts is accepted by `ProcessBlock` / `PostSlotTransition` with the same post-state. -/
theorem M_block_refines_S_phase0 (cfg : Config) (S0 : State) (p Bm C k : Nat) (K : P0Const cfg S0 Bm C) (KA : P0AConst cfg)
    (KD : P0DConst cfg Bm) (hF : S0.fork = .phase0) (ctx : Ctx) (block : SignedBlock) (hb : Phase0Block cfg Bm block)
    (hi : P0DInv cfg S0 p Bm C (BlockM.blockNeed block k) ctx S0) (htyped : Block.check_types cfg block = .ok ())
    (r : Bytes) (hroot : block.o_post_root = some r) :
    (∀ post, Block.process_block cfg S0 block = .ok post → processBlock cfg ctx S0 block = .ok post) ∧
    (∀ post, Block.state_transition_post_slots cfg S0 block = .ok post → postSlotTransition cfg ctx S0 block = .ok post) :=
  ⟨(BlockM.processBlock_phase0 cfg S0 p Bm C k K KA KD hF ctx block hb hi htyped).1.1.1,
   (BlockM.postSlot_phase0 cfg S0 p Bm C k K KA KD hF ctx block hb hi htyped r hroot).1.1⟩

/-- non-vacuity of the configuration facts: a small configuration satisfies `P0AConst` and `P0DConst` -/
def exampleCfgA : Config :=
  { (default : Config) with SLOTS_PER_EPOCH := 8, MIN_ATTESTATION_INCLUSION_DELAY := 1, MIN_SEED_LOOKAHEAD := 1, EPOCHS_PER_HISTORICAL_VECTOR := 64 }
def exampleCfgD : Config :=
  { (default : Config) with EFFECTIVE_BALANCE_INCREMENT := 1000000000, MAX_EFFECTIVE_BALANCE := 32000000000, VALIDATOR_REGISTRY_LIMIT := 1099511627776 }
example : P0AConst exampleCfgA := ⟨by decide, by decide, by decide⟩
example : P0DConst exampleCfgD 32000000000 := ⟨by decide, by decide, by decide⟩

/-- `processBlock_altair_eq` — for EVERY altair block (`AltairBlock`: the container of the fork, every list element inside
its type limits, deposit amounts within one balance unit, the sync aggregate's bit vector of the configured size):
`altair.ProcessBlock` simulates `process_block`, with NO premise about the operations, and the state after an accepted
block satisfies the invariant again with the budget that is left.
`AltInv … k ctx st` = `P0DInv` (see `processBlock_phase0_eq`; it does not fix the fork) and `AltExtra`: block-root vector
of the configured length, both participation lists as long as the registry with bytes below 256, the total active
balance `T`, the context's stake / square root / effective balances / sync-committee indices = the specification's
(C08, C16). `AltConst`: `MIN_ATTESTATION_INCLUSION_DELAY ≥ 1`, two epochs of block roots, `isqrt T ≠ 0`, and one balance
unit `MAX_VALIDATORS_PER_COMMITTEE · 2·Bm` covers `54 ·` the base reward of `Bm` and the rewards of a whole sync
committee. -/
theorem processBlock_altair_eq (cfg : Config) (S0 : State) (p Bm C T k : Nat) (committee : SyncCommittee) (K : P0Const cfg S0 Bm C)
    (KA : P0AConst cfg) (KD : P0DConst cfg Bm) (KL : AltConst cfg S0 Bm T) (hF : S0.fork = .altair) (ctx : Ctx) (block : SignedBlock)
    (hb : AltairBlock cfg Bm block) (hi : AltInv cfg S0 p Bm C T committee (BlockM.blockNeed block k) ctx S0)
    (htyped : Block.check_types cfg block = .ok ()) :
    Sim (Block.process_block cfg S0 block) (processBlock cfg ctx S0 block) ∧
    ∀ st', processBlock cfg ctx S0 block = .ok st' → ∃ ctx', AltInv cfg S0 p Bm C T committee k ctx' st' :=
  BlockM.processBlock_altair cfg S0 p Bm C T k committee K KA KD KL hF ctx block hb hi htyped

/-- `M_block_refines_S_altair` — C01 for altair WITHOUT the premise `OpSteps`: every altair block the specification
accepts is accepted by `ProcessBlock` / `PostSlotTransition` with the same post-state. -/
theorem M_block_refines_S_altair (cfg : Config) (S0 : State) (p Bm C T k : Nat) (committee : SyncCommittee) (K : P0Const cfg S0 Bm C)
    (KA : P0AConst cfg) (KD : P0DConst cfg Bm) (KL : AltConst cfg S0 Bm T) (hF : S0.fork = .altair) (ctx : Ctx) (block : SignedBlock)
    (hb : AltairBlock cfg Bm block) (hi : AltInv cfg S0 p Bm C T committee (BlockM.blockNeed block k) ctx S0)
    (htyped : Block.check_types cfg block = .ok ()) (r : Bytes) (hroot : block.o_post_root = some r) :
    (∀ post, Block.process_block cfg S0 block = .ok post → processBlock cfg ctx S0 block = .ok post) ∧
    (∀ post, Block.state_transition_post_slots cfg S0 block = .ok post → postSlotTransition cfg ctx S0 block = .ok post) :=
  ⟨(BlockM.processBlock_altair cfg S0 p Bm C T k committee K KA KD KL hF ctx block hb hi htyped).1.1.1,
   (BlockM.postSlot_altair cfg S0 p Bm C T k committee K KA KD KL hF ctx block hb hi htyped r hroot).1.1⟩

/-- `processBlock_bellatrix_eq` — for EVERY bellatrix block (`BellatrixBlock`: as `AltairBlock`, with an execution payload
whose `extra_data` is inside its type limit; the engine's verdict is an input): a corollary of the altair steps and the
payload step, which writes the latest payload header only. -/
theorem processBlock_bellatrix_eq (cfg : Config) (S0 : State) (p Bm C T k : Nat) (committee : SyncCommittee) (K : P0Const cfg S0 Bm C)
    (KA : P0AConst cfg) (KD : P0DConst cfg Bm) (KL : AltConst cfg S0 Bm T) (hsps : 0 < cfg.SECONDS_PER_SLOT) (hF : S0.fork = .bellatrix) (ctx : Ctx) (block : SignedBlock)
    (hb : BellatrixBlock cfg Bm block) (hi : AltInv cfg S0 p Bm C T committee (BlockM.blockNeed block k) ctx S0)
    (htyped : Block.check_types cfg block = .ok ()) :
    Sim (Block.process_block cfg S0 block) (processBlock cfg ctx S0 block) ∧
    ∀ st', processBlock cfg ctx S0 block = .ok st' → ∃ ctx', AltInv cfg S0 p Bm C T committee k ctx' st' :=
  BlockM.processBlock_bellatrix cfg S0 p Bm C T k committee K KA KD KL hsps hF ctx block hb hi htyped

/-- `M_block_refines_S_bellatrix` — C01 for bellatrix WITHOUT the premise `OpSteps`. -/
theorem M_block_refines_S_bellatrix (cfg : Config) (S0 : State) (p Bm C T k : Nat) (committee : SyncCommittee) (K : P0Const cfg S0 Bm C)
    (KA : P0AConst cfg) (KD : P0DConst cfg Bm) (KL : AltConst cfg S0 Bm T) (hsps : 0 < cfg.SECONDS_PER_SLOT) (hF : S0.fork = .bellatrix) (ctx : Ctx) (block : SignedBlock)
    (hb : BellatrixBlock cfg Bm block) (hi : AltInv cfg S0 p Bm C T committee (BlockM.blockNeed block k) ctx S0)
    (htyped : Block.check_types cfg block = .ok ()) (r : Bytes) (hroot : block.o_post_root = some r) :
    (∀ post, Block.process_block cfg S0 block = .ok post → processBlock cfg ctx S0 block = .ok post) ∧
    (∀ post, Block.state_transition_post_slots cfg S0 block = .ok post → postSlotTransition cfg ctx S0 block = .ok post) :=
  ⟨(BlockM.processBlock_bellatrix cfg S0 p Bm C T k committee K KA KD KL hsps hF ctx block hb hi htyped).1.1.1,
   (BlockM.postSlot_bellatrix cfg S0 p Bm C T k committee K KA KD KL hsps hF ctx block hb hi htyped r hroot).1.1⟩

/-- `processBlock_capella_eq` — for EVERY capella block (`CapellaBlock`: execution payload with `extra_data` inside its
type limit, BLS-to-execution changes in any number, the rest as `AltairBlock`): withdrawals (balances only decrease; the
withdrawal index advances by at most `MAX_WITHDRAWALS_PER_PAYLOAD`, the sweep cursor stays inside the registry —
`WdInv` inside `AltInv`), the payload step, and BLS changes (a credentials write keeps committees, proposer, exit queue
and pubkeys). `CapConst`: `MAX_WITHDRAWALS_PER_PAYLOAD ≠ 0`, `VALIDATOR_REGISTRY_LIMIT + MAX_VALIDATORS_PER_WITHDRAWALS_SWEEP < 2^64`. -/
theorem processBlock_capella_eq (cfg : Config) (S0 : State) (p Bm C T k : Nat) (committee : SyncCommittee) (K : P0Const cfg S0 Bm C)
    (KA : P0AConst cfg) (KD : P0DConst cfg Bm) (KL : AltConst cfg S0 Bm T) (KC : CapConst cfg) (hsps : 0 < cfg.SECONDS_PER_SLOT)
    (hF : S0.fork = .capella) (ctx : Ctx) (block : SignedBlock)
    (hb : CapellaBlock cfg Bm block) (hi : AltInv cfg S0 p Bm C T committee (BlockM.blockNeed block k) ctx S0)
    (htyped : Block.check_types cfg block = .ok ()) :
    Sim (Block.process_block cfg S0 block) (processBlock cfg ctx S0 block) ∧
    ∀ st', processBlock cfg ctx S0 block = .ok st' → ∃ ctx', AltInv cfg S0 p Bm C T committee k ctx' st' :=
  BlockM.processBlock_capella cfg S0 p Bm C T k committee .capella (by decide) K KA KD KL KC hsps hF ctx block hb hi htyped

/-- `M_block_refines_S_capella` — C01 for capella WITHOUT the premise `OpSteps`. -/
theorem M_block_refines_S_capella (cfg : Config) (S0 : State) (p Bm C T k : Nat) (committee : SyncCommittee) (K : P0Const cfg S0 Bm C)
    (KA : P0AConst cfg) (KD : P0DConst cfg Bm) (KL : AltConst cfg S0 Bm T) (KC : CapConst cfg) (hsps : 0 < cfg.SECONDS_PER_SLOT)
    (hF : S0.fork = .capella) (ctx : Ctx) (block : SignedBlock)
    (hb : CapellaBlock cfg Bm block) (hi : AltInv cfg S0 p Bm C T committee (BlockM.blockNeed block k) ctx S0)
    (htyped : Block.check_types cfg block = .ok ()) (r : Bytes) (hroot : block.o_post_root = some r) :
    (∀ post, Block.process_block cfg S0 block = .ok post → processBlock cfg ctx S0 block = .ok post) ∧
    (∀ post, Block.state_transition_post_slots cfg S0 block = .ok post → postSlotTransition cfg ctx S0 block = .ok post) :=
  ⟨(BlockM.processBlock_capella cfg S0 p Bm C T k committee .capella (by decide) K KA KD KL KC hsps hF ctx block hb hi htyped).1.1.1,
   (BlockM.postSlot_capella cfg S0 p Bm C T k committee .capella (by decide) K KA KD KL KC hsps hF ctx block hb hi htyped r hroot).1.1⟩

/-- `processBlock_deneb_eq` — for EVERY deneb block (the container class of capella; the blob-commitment limit is part of
`CheckLimits` / the payload step, the attestation window without upper bound and the target flag without delay bound
are `attestation_deneb_eq`, which the attestation step uses on this fork). -/
theorem processBlock_deneb_eq (cfg : Config) (S0 : State) (p Bm C T k : Nat) (committee : SyncCommittee) (K : P0Const cfg S0 Bm C)
    (KA : P0AConst cfg) (KD : P0DConst cfg Bm) (KL : AltConst cfg S0 Bm T) (KC : CapConst cfg) (hsps : 0 < cfg.SECONDS_PER_SLOT)
    (hF : S0.fork = .deneb) (ctx : Ctx) (block : SignedBlock)
    (hb : CapellaBlock cfg Bm block) (hi : AltInv cfg S0 p Bm C T committee (BlockM.blockNeed block k) ctx S0)
    (htyped : Block.check_types cfg block = .ok ()) :
    Sim (Block.process_block cfg S0 block) (processBlock cfg ctx S0 block) ∧
    ∀ st', processBlock cfg ctx S0 block = .ok st' → ∃ ctx', AltInv cfg S0 p Bm C T committee k ctx' st' :=
  BlockM.processBlock_capella cfg S0 p Bm C T k committee .deneb (by decide) K KA KD KL KC hsps hF ctx block hb hi htyped

/-- `M_block_refines_S_deneb` — C01 for deneb WITHOUT the premise `OpSteps`. -/
theorem M_block_refines_S_deneb (cfg : Config) (S0 : State) (p Bm C T k : Nat) (committee : SyncCommittee) (K : P0Const cfg S0 Bm C)
    (KA : P0AConst cfg) (KD : P0DConst cfg Bm) (KL : AltConst cfg S0 Bm T) (KC : CapConst cfg) (hsps : 0 < cfg.SECONDS_PER_SLOT)
    (hF : S0.fork = .deneb) (ctx : Ctx) (block : SignedBlock)
    (hb : CapellaBlock cfg Bm block) (hi : AltInv cfg S0 p Bm C T committee (BlockM.blockNeed block k) ctx S0)
    (htyped : Block.check_types cfg block = .ok ()) (r : Bytes) (hroot : block.o_post_root = some r) :
    (∀ post, Block.process_block cfg S0 block = .ok post → processBlock cfg ctx S0 block = .ok post) ∧
    (∀ post, Block.state_transition_post_slots cfg S0 block = .ok post → postSlotTransition cfg ctx S0 block = .ok post) :=
  ⟨(BlockM.processBlock_capella cfg S0 p Bm C T k committee .deneb (by decide) K KA KD KL KC hsps hF ctx block hb hi htyped).1.1.1,
   (BlockM.postSlot_capella cfg S0 p Bm C T k committee .deneb (by decide) K KA KD KL KC hsps hF ctx block hb hi htyped r hroot).1.1⟩

/-- `M_block_refines_S` — C01, all five forks, WITHOUT the premise `OpSteps`: every block the specification accepts is
accepted by `ProcessBlock` / `PostSlotTransition` with the same post-state. `Admissible` is the disjunction over the fork of
the pre-state of the per-fork hypotheses (container class of the fork, the fork's invariant with `blockNeed block k`
units of budget); `admissible_forks`: the disjunction leaves no fork out. -/
theorem M_block_refines_S (cfg : Config) (S0 : State) (p Bm C T k : Nat) (committee : SyncCommittee) (K : P0Const cfg S0 Bm C)
    (KA : P0AConst cfg) (KD : P0DConst cfg Bm) (ctx : Ctx) (block : SignedBlock)
    (ha : Admissible cfg S0 p Bm C T committee k ctx block)
    (htyped : Block.check_types cfg block = .ok ()) (r : Bytes) (hroot : block.o_post_root = some r) :
    (∀ post, Block.process_block cfg S0 block = .ok post → processBlock cfg ctx S0 block = .ok post) ∧
    (∀ post, Block.state_transition_post_slots cfg S0 block = .ok post → postSlotTransition cfg ctx S0 block = .ok post) :=
  ⟨(BlockM.processBlock_any cfg S0 p Bm C T k committee K KA KD ctx block ha htyped).1.1,
   (BlockM.postSlot_any cfg S0 p Bm C T k committee K KA KD ctx block ha htyped r hroot).1.1⟩

/-- `stateTransition_allForks_eq` — `StateTransition` = `process_slots; verify signature; process_block; state-root check`
on every fork with no premise about the operations: C02's full `processSlots_eq` for the slots part, `M_block_refines_S`'s
hypotheses (`Admissible`) for the state the slots reach. -/
theorem stateTransition_allForks_eq (cfg : Config) (block : SignedBlock) (inps : List SlotInputs) (s : State) (C2 N : Nat) (ctx : Ctx)
    (hspe : 0 < cfg.SLOTS_PER_EPOCH) (hQ : Lemmas.Q cfg C2 N (get_current_epoch cfg s) s)
    (hbound : C2 + inps.length + N + 1 < FAR_FUTURE_EPOCH)
    (p Bm C T k : Nat) (committee : SyncCommittee) (K : P0Const cfg (process_slots_pure cfg inps s) Bm C)
    (KA : P0AConst cfg) (KD : P0DConst cfg Bm)
    (ha : Admissible cfg (process_slots_pure cfg inps s) p Bm C T committee k ctx block)
    (htyped : Block.check_types cfg block = .ok ()) (r : Bytes) (hroot : block.o_post_root = some r) :
    Sim (Block.state_transition_post_slots cfg (process_slots_pure cfg inps s) block)
      (postSlotTransition cfg ctx (Impl.processSlots cfg inps s) block) := by
  rw [Zrnt.Proofs.C02.processSlots_eq cfg inps s C2 N hspe hQ hbound]
  exact BlockM.postSlot_any cfg _ p Bm C T k committee K KA KD ctx block ha htyped r hroot

theorem admissible_forks (f : Fork) : f = .phase0 ∨ f = .altair ∨ f = .bellatrix ∨ f ≥ .capella := BlockM.fork_cases f

/-- non-vacuity of `AltConst`: a small configuration and a total active balance of 64 -/
def exampleCfgL : Config :=
  { (default : Config) with SLOTS_PER_EPOCH := 8, MIN_ATTESTATION_INCLUSION_DELAY := 1, SLOTS_PER_HISTORICAL_ROOT := 64, EFFECTIVE_BALANCE_INCREMENT := 1, BASE_REWARD_FACTOR := 1, SYNC_COMMITTEE_SIZE := 4, MAX_VALIDATORS_PER_COMMITTEE := 4 }
example : CapConst { (default : Config) with MAX_WITHDRAWALS_PER_PAYLOAD := 4, VALIDATOR_REGISTRY_LIMIT := 1099511627776, MAX_VALIDATORS_PER_WITHDRAWALS_SWEEP := 16 } := ⟨by decide, by decide⟩
example : AltConst exampleCfgL (default : State) 32 64 :=
  ⟨by decide, by decide, by decide, by decide +kernel, by decide, by decide +kernel, by decide, by decide +kernel, by decide +kernel, by decide +kernel⟩

end Zrnt.Proofs.C01
