import Proofs.Lemmas.BeaconBlock
import Proofs.Lemmas.BeaconBlockM
import Proofs.Lemmas.BeaconBlockCompose
import Proofs.Lemmas.BeaconBlockSteps
import Proofs.Lemmas.BeaconBlockP0Dep
import Proofs.Lemmas.BeaconBlockAltair
/-!
# C03 — every block or operation the spec rejects is rejected, without panicking

`S` rejects = `Except.error` in `Zrnt/Beacon/Spec/BlockOps.lean` / `BlockTransition.lean`;
`M` = `Zrnt/Beacon/Impl/Block.lean`; a Go panic is the third outcome `Res.panic`.

## The full statement (NOT proved here)

```
theorem M_sound (cfg : Config) (st : State) (ctx) (blk : SignedBlock) :
    WF cfg st → ctx = ctxOf cfg st →
    (∀ post', M.stateTransition cfg (st, ctx) blk = .ok post' → ∃ post, S.state_transition cfg st blk = .ok post)
    ∧ M.stateTransition cfg (st, ctx) blk ≠ .panic
```
for a model `M.stateTransition` of the whole of `common.StateTransition`. That end-to-end model does
not exist; `M_sound_partial` below is the conjunction of what is proved, each piece for all inputs:

* `indexedAttestation_sound` — the structure check of `ValidateIndexedAttestation` as coded (limit,
  non-empty, `sort.IsSorted`, adjacent-duplicate scan, range test of the LAST index only) accepts
  exactly what the spec's `is_valid_indexed_attestation` accepts structurally;
* `slashable_sound` — `IsSlashableAttestationData` accepts only what the spec calls slashable;
* `attestation_window_sound` — the target-epoch / slot / inclusion-window checks as coded (wrapping sums,
  phase0 two-sided, deneb one-sided) = the spec's assertions;
* `domain_separation` — `ComputeDomain`/`ComputeSigningRoot` are injective in (domain type, fork
  version, genesis validators root, object root) up to an explicit (28-byte-truncated) hash collision:
  a signature made for another domain, fork or chain is over a different message;
* `M_total` — no modelled slice index, division or loop bound can panic or run away.

Round 3 (`M_sound_partial` below): the block-level statement from the composition `processBlock_sim` of the operation
theorems — for every block of the block type that the specification REJECTS, `ProcessBlock` / `PostSlotTransition` of the
state's fork reject, and they never panic or run away — given the operation steps `OpSteps` for an invariant
(see `Proofs/Properties/C01.lean`; the simulation halves are proved for every operation kind, the preservation halves
for one common invariant are what is missing for the full `M_sound`). Single-operation forms of the same:
`attestation_reject_sound`, `slashing_reject_sound`.

Resting on the correspondence only (modes `c03`, `c01`): every other rejection rule of the spec — the
per-rule counts of mutants rejected *by that rule first* are in the evidence
(`coverage.rejections_by_first_rule`) — and the absence of panics outside the modelled functions.
-/
namespace Zrnt.Proofs.C03
open Zrnt Zrnt.Beacon Zrnt.Beacon.Spec Zrnt.Beacon.BlockImpl Zrnt.Proofs.BeaconBlock

/-- (d) The indices check as coded returns without error exactly when the list is within the SSZ limit
and the spec's `is_valid_indexed_attestation` (with a verifying signature) accepts it; it never panics
(the raw `indices[len-1]` is guarded by the emptiness test). For every registry size and index list. -/
theorem indexedAttestation_sound (cfg : Config) (s : State) (indices : List Nat) :
    ∃ b, validateIndexedNoSig cfg s.validators.length indices = .ok b ∧
      (b = true ↔ (indices.length ≤ cfg.MAX_VALIDATORS_PER_COMMITTEE ∧
                    Block.is_valid_indexed_attestation s indices true = .ok true)) := by
  refine ⟨_, validateIndexedNoSig_eq cfg s.validators.length indices, ?_⟩
  rw [spec_valid_indexed_iff]
  simp

/-- what the spec predicate means: non-empty, strictly increasing, all in range -/
theorem spec_indexed_meaning (s : State) (indices : List Nat) :
    Block.is_valid_indexed_attestation s indices true = .ok true ↔
      (indices ≠ [] ∧ indices.Pairwise (· < ·) ∧ ∀ i ∈ indices, i < s.validators.length) := by
  rw [spec_valid_indexed_iff, sortedUnique_iff_pairwise]
  constructor
  · rintro ⟨h1, h2, h3⟩; exact ⟨by intro h; simp [h] at h1, h2, h3⟩
  · rintro ⟨h1, h2, h3⟩; exact ⟨by intro h; exact h1 (List.length_eq_zero_iff.mp h), h2, h3⟩

/-- non-vacuity: accepted and rejected instances -/
example : validateIndexedNoSig { (default : Config) with MAX_VALIDATORS_PER_COMMITTEE := 2048 } 10 [1, 5, 9] = .ok true := by decide
example : validateIndexedNoSig { (default : Config) with MAX_VALIDATORS_PER_COMMITTEE := 2048 } 10 [1, 5, 5] = .ok false := by decide
example : validateIndexedNoSig { (default : Config) with MAX_VALIDATORS_PER_COMMITTEE := 2048 } 10 [1, 5, 10] = .ok false := by decide
example : validateIndexedNoSig { (default : Config) with MAX_VALIDATORS_PER_COMMITTEE := 2048 } 10 [] = .ok false := by decide

/-- (h) `attestation_window_sound`: the epoch/slot checks at the head of `ProcessAttestation` as coded
(`uint64` sums that wrap; phase0/altair two-sided window, deneb one-sided after EIP-7045) pass exactly
when the spec's assertions on `data.target.epoch` and `data.slot` pass — for every slot, target epoch
and state slot, provided the state's slot is not within two epochs of `2^64` (where the spec's own
sums would overflow). In particular a wrapped `data.slot + SLOTS_PER_EPOCH` can never admit an attestation. -/
theorem attestation_window_sound (cfg : Config) (s : State) (data : AttestationData)
    (hspe : 0 < cfg.SLOTS_PER_EPOCH) (hmin : cfg.MIN_ATTESTATION_INCLUSION_DELAY ≤ cfg.SLOTS_PER_EPOCH)
    (hcur : s.slot + 2 * cfg.SLOTS_PER_EPOCH < 2 ^ 64) :
    attestationTimingOk cfg.SLOTS_PER_EPOCH cfg.MIN_ATTESTATION_INCLUSION_DELAY (decide (s.fork ≥ .deneb)) s.slot data.slot data.target.epoch = true
      ↔ Block.attestation_timing cfg s data = .ok () :=
  attestation_window_eq cfg s data hspe hmin hcur

/-- non-vacuity of the hypotheses of `attestation_window_sound` -/
example :
    let cfg : Config := { (default : Config) with SLOTS_PER_EPOCH := 8, MIN_ATTESTATION_INCLUSION_DELAY := 1 }
    let s : State := { (default : State) with slot := 17 }
    ∀ data : AttestationData,
      attestationTimingOk 8 1 (decide (s.fork ≥ .deneb)) 17 data.slot data.target.epoch = true ↔ Block.attestation_timing cfg s data = .ok () := by
  intro cfg s data
  exact attestation_window_sound cfg s data (by decide) (by decide) (by decide)

/-- non-vacuity: the last admissible slot (data.slot + SLOTS_PER_EPOCH = state.slot) before deneb, one later only from deneb on -/
example : attestationTimingOk 8 1 false 17 9 1 = true ∧ attestationTimingOk 8 1 false 18 9 1 = false ∧
          attestationTimingOk 8 1 true 18 9 1 = true ∧ attestationTimingOk 8 1 true 17 17 2 = false := by decide

/-- (e) soundness direction of `slashable_eq`: what the code calls slashable the spec calls slashable. -/
theorem slashable_sound (a b : AttestationData) :
    isSlashableAttestationData a b = true → Block.is_slashable_attestation_data a b = true := by
  rw [BeaconBlock.slashable_eq]; exact id

/-- (f) Domain separation. `H` is an arbitrary hash on byte strings (`List UInt8`). If the messages
`compute_signing_root(obj, compute_domain(type, version, genesis_validators_root))` of two well-sized
input quadruples coincide, then the quadruples are equal — or the proof exhibits two different byte
strings whose hashes agree on the 28 bytes that enter a domain. -/
theorem domain_separation (H : Bs → Bs)
    (t v g o t' v' g' o' : Bs)
    (ht : t.length = 4) (ht' : t'.length = 4) (hv : v.length = 4) (hv' : v'.length = 4)
    (ho : o.length = 32) (ho' : o'.length = 32)
    (heq : signedMessage H t v g o = signedMessage H t' v' g' o') :
    (t = t' ∧ v = v' ∧ g = g' ∧ o = o') ∨ Collision28 H :=
  BeaconBlock.domain_separation H t v g o t' v' g' o' ht ht' hv hv' ho ho' heq

/-- consequence: with a collision-free `H`, replaying a signature under another domain type, fork version,
chain or object changes the message -/
theorem domain_separation_no_collision (H : Bs → Bs) (hH : ¬ Collision28 H)
    (t v g o t' v' g' o' : Bs)
    (ht : t.length = 4) (ht' : t'.length = 4) (hv : v.length = 4) (hv' : v'.length = 4)
    (ho : o.length = 32) (ho' : o'.length = 32)
    (hne : ¬ (t = t' ∧ v = v' ∧ g = g' ∧ o = o')) :
    signedMessage H t v g o ≠ signedMessage H t' v' g' o' := by
  intro heq
  rcases domain_separation H t v g o t' v' g' o' ht ht' hv hv' ho ho' heq with h | h
  · exact hne h
  · exact hH h

/-- non-vacuity of the hypotheses: inputs of the required sizes exist (and the identity "hash" shows the
conclusion's first disjunct is attainable) -/
example : signedMessage id (List.replicate 4 1) (List.replicate 4 2) (List.replicate 32 3) (List.replicate 32 4)
    ≠ signedMessage id (List.replicate 4 7) (List.replicate 4 2) (List.replicate 32 3) (List.replicate 32 4) := by decide

/-- (g) `M_total`: the modelled control flow has no unguarded index, division or runaway loop.
Every definition of `Zrnt/Beacon/Impl/Block.lean` is accepted by Lean without `partial`; where a Go
slice index or division is modelled by an explicit `Res.panic` branch and a loop by a fuel bound, that
branch / bound is unreachable: for ALL inputs (`uint64` values for the index lists; a non-zero
`CHURN_LIMIT_QUOTIENT`, which `GetChurnLimit` divides by). -/
theorem M_total :
    (∀ vs target : List Nat, (∀ x ∈ vs, x ≤ marker) → ∃ r, zigzagIn vs target = .ok r) ∧
    (∀ (cfg : Config) (n : Nat) (indices : List Nat), ∃ b, validateIndexedNoSig cfg n indices = .ok b) ∧
    (∀ (cfg : Config) (cur activeCount : Nat) (vals : List Validator) (index : Nat), cfg.CHURN_LIMIT_QUOTIENT ≠ 0 →
        initiateValidatorExit cfg cur activeCount vals index ≠ .panic ∧
        initiateValidatorExit cfg cur activeCount vals index ≠ .outOfFuel) ∧
    (∀ (cfg : Config) (s : State), expectedWithdrawals cfg s ≠ .panic ∧ expectedWithdrawals cfg s ≠ .outOfFuel) :=
  ⟨zigzagIn_total,
   fun cfg n indices => ⟨_, validateIndexedNoSig_eq cfg n indices⟩,
   fun cfg cur ac vals index hq => initiateValidatorExit_total cfg cur ac vals index hq,
   expectedWithdrawals_total⟩

/-- Round 1: the soundness pieces as one statement. -/
theorem M_sound_pieces :
    (∀ (cfg : Config) (s : State) (indices : List Nat),
        validateIndexedNoSig cfg s.validators.length indices = .ok true →
        Block.is_valid_indexed_attestation s indices true = .ok true) ∧
    (∀ a b : AttestationData, isSlashableAttestationData a b = true → Block.is_slashable_attestation_data a b = true) ∧
    (∀ (vs target : List Nat), vs.Pairwise (· < ·) → target.Pairwise (· < ·) → (∀ x ∈ vs, x < marker) →
        ∀ r, zigzagIn vs target = .ok r → ∀ x ∈ r, x ∈ vs ∧ x ∈ target) := by
  refine ⟨?_, slashable_sound, ?_⟩
  · intro cfg s indices h
    obtain ⟨b, hb, hiff⟩ := indexedAttestation_sound cfg s indices
    rw [h] at hb
    have : b = true := by cases hb; rfl
    exact (hiff.mp this).2
  · intro vs target h1 h2 h3 r hr x hx
    rw [zigzagIn_eq_filter vs target h1 h2 h3] at hr
    cases hr
    simpa [List.mem_filter] using hx

/-! ## Round 2: soundness of whole operations (from the refinements `M = S` of `Proofs/Properties/C01.lean`)

If `M` (the code-shaped model, = the Go code per line of modes `c01`/`c03`) accepts an operation then `S` accepts it,
with the same post-state; and `M` never answers `panic` where `S` has an answer. -/

/-- generic: an equation `M = toRes S` turns an acceptance by `M` into the same acceptance by `S` -/
theorem sound_of_refines {α} (m : Res α) (sp : SM α) (h : m = toRes sp) (a : α) (hm : m = .ok a) : sp = .ok a := by
  rw [h] at hm
  cases sp with
  | ok b => simp [toRes] at hm; rw [hm]
  | error e => simp [toRes] at hm

/-- `header_sound`: what `ProcessHeader` accepts `process_block_header` accepts (slot, parent root, proposer, slashed) -/
theorem header_sound (cfg : Config) (s s' : State) (block : SignedBlock) (p : Nat)
    (hp : Block.get_beacon_proposer_index cfg s = .ok p) (h : BlockM.processHeader s block p = .ok s') :
    Block.process_block_header cfg s block = .ok s' :=
  sound_of_refines _ _ (Zrnt.Proofs.BlockM.header_eq cfg s block p hp) s' h

/-- `exit_age_sound`: an exit accepted by `ProcessVoluntaryExit` is active, not exiting, due and old enough -/
theorem exit_age_sound (cfg : Config) (ctx : BlockM.Ctx) (s s' : State) (exit : SignedVoluntaryExit)
    (hact : ctx.activeCount = (s.validators.filter (is_active_validator · (s.slot / cfg.SLOTS_PER_EPOCH))).length)
    (hq : cfg.CHURN_LIMIT_QUOTIENT ≠ 0) (hreg : Zrnt.Proofs.BlockM.RegU64 s.validators) (hsmall : Zrnt.Proofs.BlockM.ExitSmall cfg s)
    (hshard : s.slot / cfg.SLOTS_PER_EPOCH + cfg.SHARD_COMMITTEE_PERIOD < 2 ^ 64)
    (h : BlockM.processVoluntaryExit cfg ctx s exit = .ok s') :
    Block.process_voluntary_exit cfg s exit = .ok s' :=
  sound_of_refines _ _ (Zrnt.Proofs.BlockM.exit_eq cfg ctx s exit hact hq hreg hsmall hshard) s' h

/-- `deposit_count_and_branch_sound` (branch part): a deposit `ProcessDeposit` accepts has a valid Merkle branch -/
theorem deposit_branch_sound (cfg : Config) (ctx : BlockM.Ctx) (s s' : State) (ctx' : BlockM.Ctx) (dep : Deposit)
    (hpk : Zrnt.Proofs.BlockM.PubkeyOK s ctx) (hproof : dep.proof.length = Block.DEPOSIT_CONTRACT_TREE_DEPTH + 1)
    (hebi : cfg.EFFECTIVE_BALANCE_INCREMENT ≠ 0) (hidx : s.eth1_deposit_index + 1 < 2 ^ 64)
    (hbal : ∀ b ∈ s.balances, b + dep.data.amount < 2 ^ 64)
    (h : BlockM.processDeposit cfg ctx s dep = .ok (ctx', s')) :
    Block.process_deposit cfg s dep = .ok s' := by
  apply sound_of_refines _ _ (Zrnt.Proofs.BlockM.deposit_eq cfg ctx s dep hpk hproof hebi hidx hbal) s'
  rw [h]; rfl

/-- `payload_sound`: parent hash, prev_randao, timestamp, blob commitment limit, engine verdict -/
theorem payload_sound (cfg : Config) (s s' : State) (block : SignedBlock) (payload : ExecutionPayload)
    (hf : s.fork ≥ .bellatrix) (hx : payload.fields.extra_data.size ≤ cfg.MAX_EXTRA_DATA_BYTES)
    (hlen : s.randao_mixes.length = cfg.EPOCHS_PER_HISTORICAL_VECTOR) (hpos : 0 < cfg.EPOCHS_PER_HISTORICAL_VECTOR)
    (hsps : 0 < cfg.SECONDS_PER_SLOT) (hg : s.genesis_time < 2 ^ 64)
    (h : BlockM.processExecutionPayload cfg s block payload = .ok s') :
    Block.process_execution_payload cfg s block payload = .ok s' :=
  sound_of_refines _ _ (Zrnt.Proofs.BlockM.payload_eq cfg s block payload hf hx hlen hpos hsps hg) s' h

/-- no panic where the refinement holds: `toRes` never yields `panic` -/
theorem no_panic_of_refines {α} (m : Res α) (sp : SM α) (h : m = toRes sp) : m ≠ .panic ∧ m ≠ .outOfFuel := by
  rw [h]; cases sp <;> simp [toRes]

/-! ## Round 3: the block-level statement -/

open Zrnt.Proofs.BlockM (OpSteps Sim Safe) in
/-- `M_sound_partial`: every block (of the block type) that the specification rejects is rejected by `ProcessBlock` and
by `PostSlotTransition` of the state's fork, without panic and without a runaway loop; and a block the model accepts is
not one the specification rejects. Premise: the operation steps `OpSteps` for an invariant `Inv` holding for the
pre-state (FULL statement: for reachable states with `ctx = ctxOf cfg st`, without that premise; see C01's header for
what is missing). -/
theorem M_sound_partial {cfg : Config} {block : SignedBlock} {F : Fork} {Inv : Nat → BlockM.Ctx → State → Prop}
    (H : OpSteps cfg block F Inv) (k : Nat) (ctx : BlockM.Ctx) (st : State) (hi : Inv (Zrnt.Proofs.BlockM.blockNeed block k) ctx st)
    (htyped : Block.check_types cfg block = .ok ()) (r : Bytes) (hroot : block.o_post_root = some r) :
    (∀ m, Block.process_block cfg st block = .error (.invalid m) → BlockM.processBlock cfg ctx st block = .err) ∧
    (∀ m, Block.state_transition_post_slots cfg st block = .error (.invalid m) → BlockM.postSlotTransition cfg ctx st block = .err) ∧
    Safe (BlockM.processBlock cfg ctx st block) ∧ Safe (BlockM.postSlotTransition cfg ctx st block) ∧
    (∀ post, BlockM.postSlotTransition cfg ctx st block = .ok post →
      ∀ m, Block.state_transition_post_slots cfg st block ≠ .error (.invalid m)) := by
  have h1 := Zrnt.Proofs.BlockM.processBlock_sim H k ctx st hi htyped
  have h2 := Zrnt.Proofs.BlockM.postSlot_sim H k ctx st hi htyped r hroot
  refine ⟨h1.1.2, h2.1.2, h1.2, h2.2, fun post hp m hm => ?_⟩
  have := h2.1.2 m hm
  rw [hp] at this
  cases this

/-- an attestation the specification rejects is rejected by `altair.ProcessAttestation` / `deneb.ProcessAttestation`
(whatever the rule: window, committee index, bits length, source checkpoint, block-root look-ups, structure, range or
signature of the indexed form, proposer balance), and the code does not panic: the simulation of the operation. -/
theorem attestation_reject_sound (cfg : Config) (ctx : BlockM.Ctx) (s : State) (att : Attestation) (T R : Nat)
    (hfork : s.fork ≠ .phase0) (hTs : get_total_active_balance cfg s = .ok T)
    (hcc : ctx.committeeCount att.data.target.epoch = (get_committee_count_per_slot cfg s att.data.target.epoch).toOption)
    (hcom : ctx.committee att.data.slot att.data.index = (get_beacon_committee cfg s att.data.slot att.data.index).toOption)
    (hprop : ctx.proposer = (Block.get_beacon_proposer_index cfg s).toOption)
    (hsq : ctx.totalActiveStakeSqRoot = integer_squareroot T)
    (heb : ctx.effectiveBalances = s.validators.map (·.effective_balance))
    (hnd : ∀ c, (get_beacon_committee cfg s att.data.slot att.data.index).toOption = some c → c.Nodup)
    (hwf : att.bits_wellformed = true) (hmaxbits : att.aggregation_bits.length ≤ cfg.MAX_VALIDATORS_PER_COMMITTEE)
    (hspe : 0 < cfg.SLOTS_PER_EPOCH) (hmin : cfg.MIN_ATTESTATION_INCLUSION_DELAY ≤ cfg.SLOTS_PER_EPOCH)
    (hmin1 : 1 ≤ cfg.MIN_ATTESTATION_INCLUSION_DELAY)
    (hcur : s.slot + 2 * cfg.SLOTS_PER_EPOCH < 2 ^ 64)
    (hsphr : 2 * cfg.SLOTS_PER_EPOCH ≤ cfg.SLOTS_PER_HISTORICAL_ROOT)
    (hroots : s.block_roots.length = cfg.SLOTS_PER_HISTORICAL_ROOT)
    (hslot : s.slot + cfg.SLOTS_PER_HISTORICAL_ROOT < 2 ^ 64)
    (hnz : cfg.EFFECTIVE_BALANCE_INCREMENT ≠ 0 ∧ integer_squareroot T ≠ 0)
    (hbrf : cfg.EFFECTIVE_BALANCE_INCREMENT * cfg.BASE_REWARD_FACTOR < 2 ^ 64)
    (hR : ∀ v ∈ s.validators, v.effective_balance / cfg.EFFECTIVE_BALANCE_INCREMENT *
      (cfg.EFFECTIVE_BALANCE_INCREMENT * cfg.BASE_REWARD_FACTOR / integer_squareroot T) ≤ R)
    (hsum : cfg.MAX_VALIDATORS_PER_COMMITTEE * (R * 54) < 2 ^ 64)
    (hbal : ∀ b ∈ s.balances, b + cfg.MAX_VALIDATORS_PER_COMMITTEE * (R * 54) < 2 ^ 64)
    (hpc : s.current_epoch_participation.length = s.validators.length ∧ ∀ e ∈ s.current_epoch_participation, e < 256)
    (hpp : s.previous_epoch_participation.length = s.validators.length ∧ ∀ e ∈ s.previous_epoch_participation, e < 256) :
    (∀ m, Block.process_attestation cfg s att = .error (.invalid m) → BlockM.processAttestationAltair cfg ctx s att = .err) ∧
    BlockM.processAttestationAltair cfg ctx s att ≠ .panic := by
  have h := Zrnt.Proofs.BlockM.sim_attestation_altair cfg ctx s att T R hfork hTs hcc hcom hprop hsq heb hnd hwf hmaxbits hspe hmin
    hmin1 hcur hsphr hroots hslot hnz hbrf hR hsum hbal hpc hpp
  exact ⟨h.1.2, h.2.1⟩

/-- a proposer slashing / attester slashing the specification rejects is rejected by the code, and an accepted one is
accepted by the specification with the same post-state (from `proposerSlashing_eq`, `attesterSlashing_eq`) -/
theorem slashing_reject_sound (cfg : Config) (ctx : BlockM.Ctx) (s : State) (op : AttesterSlashing) (p Bm C : Nat)
    (hp : ctx.proposer = some p)
    (hinv : Zrnt.Proofs.BlockM.SlashInv cfg s p ctx.activeCount Bm C cfg.MAX_VALIDATORS_PER_COMMITTEE s)
    (hlen1 : op.attestation_1.attesting_indices.length ≤ cfg.MAX_VALIDATORS_PER_COMMITTEE)
    (hlen2 : op.attestation_2.attesting_indices.length ≤ cfg.MAX_VALIDATORS_PER_COMMITTEE)
    (hvl : s.validators.length ≤ marker)
    (hq : cfg.CHURN_LIMIT_QUOTIENT ≠ 0)
    (hz : cfg.EPOCHS_PER_SLASHINGS_VECTOR ≠ 0 ∧ min_slashing_penalty_quotient cfg s.fork ≠ 0 ∧
          cfg.WHISTLEBLOWER_REWARD_QUOTIENT ≠ 0 ∧ cfg.PROPOSER_REWARD_QUOTIENT ≠ 0)
    (hC : C + 1 + cfg.MIN_VALIDATOR_WITHDRAWABILITY_DELAY < 2 ^ 64)
    (hepoch : s.slot / cfg.SLOTS_PER_EPOCH + cfg.EPOCHS_PER_SLASHINGS_VECTOR < 2 ^ 64)
    (hBm : Bm * PROPOSER_WEIGHT < 2 ^ 64) :
    (∀ s', BlockM.processAttesterSlashing cfg ctx s op = .ok s' → Block.process_attester_slashing cfg s op = .ok s') ∧
    BlockM.processAttesterSlashing cfg ctx s op ≠ .panic ∧ BlockM.processAttesterSlashing cfg ctx s op ≠ .outOfFuel := by
  have h := Zrnt.Proofs.BlockM.attesterSlashing_eq cfg ctx s op p Bm C hp hinv hlen1 hlen2 hvl hq hz hC hepoch hBm
  exact ⟨fun s' hs' => sound_of_refines _ _ h s' hs', no_panic_of_refines _ _ h⟩

open Zrnt.Proofs.BlockM (P0Const P0AConst P0DConst P0DInv Phase0Block Safe) in
/-- `M_sound_phase0` — C03 for phase0 WITHOUT the premise `OpSteps`: every phase0 block (of the block type) that the
specification rejects is rejected by `phase0.ProcessBlock` and by `PostSlotTransition`, without panic and without a
runaway loop; a block the model accepts is not one the specification rejects. For every pre-state satisfying the
invariant `P0DInv` (see `Zrnt.Proofs.C01.processBlock_phase0_eq`). -/
theorem M_sound_phase0 (cfg : Config) (S0 : State) (p Bm C k : Nat) (K : P0Const cfg S0 Bm C) (KA : P0AConst cfg)
    (KD : P0DConst cfg Bm) (hF : S0.fork = .phase0) (ctx : BlockM.Ctx) (block : SignedBlock) (hb : Phase0Block cfg Bm block)
    (hi : P0DInv cfg S0 p Bm C (Zrnt.Proofs.BlockM.blockNeed block k) ctx S0) (htyped : Block.check_types cfg block = .ok ())
    (r : Bytes) (hroot : block.o_post_root = some r) :
    (∀ m, Block.process_block cfg S0 block = .error (.invalid m) → BlockM.processBlock cfg ctx S0 block = .err) ∧
    (∀ m, Block.state_transition_post_slots cfg S0 block = .error (.invalid m) → BlockM.postSlotTransition cfg ctx S0 block = .err) ∧
    Safe (BlockM.processBlock cfg ctx S0 block) ∧ Safe (BlockM.postSlotTransition cfg ctx S0 block) ∧
    (∀ post, BlockM.postSlotTransition cfg ctx S0 block = .ok post →
      ∀ m, Block.state_transition_post_slots cfg S0 block ≠ .error (.invalid m)) := by
  have h1 := (Zrnt.Proofs.BlockM.processBlock_phase0 cfg S0 p Bm C k K KA KD hF ctx block hb hi htyped).1
  have h2 := Zrnt.Proofs.BlockM.postSlot_phase0 cfg S0 p Bm C k K KA KD hF ctx block hb hi htyped r hroot
  refine ⟨h1.1.2, h2.1.2, h1.2, h2.2, fun post hp m hm => ?_⟩
  have := h2.1.2 m hm
  rw [hp] at this
  cases this

open Zrnt.Proofs.BlockM (P0Const P0AConst P0DConst AltConst AltInv AltairBlock Safe) in
/-- `M_sound_altair` — C03 for altair WITHOUT the premise `OpSteps`: every altair block (of the block type) that the
specification rejects is rejected by `altair.ProcessBlock` and by `PostSlotTransition`, without panic and without a
runaway loop. For every pre-state satisfying `AltInv` (see `Zrnt.Proofs.C01.processBlock_altair_eq`). -/
theorem M_sound_altair (cfg : Config) (S0 : State) (p Bm C T k : Nat) (committee : SyncCommittee) (K : P0Const cfg S0 Bm C)
    (KA : P0AConst cfg) (KD : P0DConst cfg Bm) (KL : AltConst cfg S0 Bm T) (hF : S0.fork = .altair) (ctx : BlockM.Ctx) (block : SignedBlock)
    (hb : AltairBlock cfg Bm block) (hi : AltInv cfg S0 p Bm C T committee (Zrnt.Proofs.BlockM.blockNeed block k) ctx S0)
    (htyped : Block.check_types cfg block = .ok ()) (r : Bytes) (hroot : block.o_post_root = some r) :
    (∀ m, Block.process_block cfg S0 block = .error (.invalid m) → BlockM.processBlock cfg ctx S0 block = .err) ∧
    (∀ m, Block.state_transition_post_slots cfg S0 block = .error (.invalid m) → BlockM.postSlotTransition cfg ctx S0 block = .err) ∧
    Safe (BlockM.processBlock cfg ctx S0 block) ∧ Safe (BlockM.postSlotTransition cfg ctx S0 block) ∧
    (∀ post, BlockM.postSlotTransition cfg ctx S0 block = .ok post →
      ∀ m, Block.state_transition_post_slots cfg S0 block ≠ .error (.invalid m)) := by
  have h1 := (Zrnt.Proofs.BlockM.processBlock_altair cfg S0 p Bm C T k committee K KA KD KL hF ctx block hb hi htyped).1
  have h2 := Zrnt.Proofs.BlockM.postSlot_altair cfg S0 p Bm C T k committee K KA KD KL hF ctx block hb hi htyped r hroot
  refine ⟨h1.1.2, h2.1.2, h1.2, h2.2, fun post hp m hm => ?_⟩
  have := h2.1.2 m hm
  rw [hp] at this
  cases this

open Zrnt.Proofs.BlockM (P0Const P0AConst P0DConst AltConst AltInv BellatrixBlock Safe) in
/-- `M_sound_bellatrix` — C03 for bellatrix WITHOUT the premise `OpSteps`: every bellatrix block (of the block type) that the
specification rejects is rejected by `bellatrix.ProcessBlock` and by `PostSlotTransition`, without panic and without a
runaway loop. For every pre-state satisfying `AltInv` (see `Zrnt.Proofs.C01.processBlock_bellatrix_eq`). -/
theorem M_sound_bellatrix (cfg : Config) (S0 : State) (p Bm C T k : Nat) (committee : SyncCommittee) (K : P0Const cfg S0 Bm C)
    (KA : P0AConst cfg) (KD : P0DConst cfg Bm) (KL : AltConst cfg S0 Bm T) (hsps : 0 < cfg.SECONDS_PER_SLOT) (hF : S0.fork = .bellatrix) (ctx : BlockM.Ctx) (block : SignedBlock)
    (hb : BellatrixBlock cfg Bm block) (hi : AltInv cfg S0 p Bm C T committee (Zrnt.Proofs.BlockM.blockNeed block k) ctx S0)
    (htyped : Block.check_types cfg block = .ok ()) (r : Bytes) (hroot : block.o_post_root = some r) :
    (∀ m, Block.process_block cfg S0 block = .error (.invalid m) → BlockM.processBlock cfg ctx S0 block = .err) ∧
    (∀ m, Block.state_transition_post_slots cfg S0 block = .error (.invalid m) → BlockM.postSlotTransition cfg ctx S0 block = .err) ∧
    Safe (BlockM.processBlock cfg ctx S0 block) ∧ Safe (BlockM.postSlotTransition cfg ctx S0 block) ∧
    (∀ post, BlockM.postSlotTransition cfg ctx S0 block = .ok post →
      ∀ m, Block.state_transition_post_slots cfg S0 block ≠ .error (.invalid m)) := by
  have h1 := (Zrnt.Proofs.BlockM.processBlock_bellatrix cfg S0 p Bm C T k committee K KA KD KL hsps hF ctx block hb hi htyped).1
  have h2 := Zrnt.Proofs.BlockM.postSlot_bellatrix cfg S0 p Bm C T k committee K KA KD KL hsps hF ctx block hb hi htyped r hroot
  refine ⟨h1.1.2, h2.1.2, h1.2, h2.2, fun post hp m hm => ?_⟩
  have := h2.1.2 m hm
  rw [hp] at this
  cases this


open Zrnt.Proofs.BlockM (P0Const P0AConst P0DConst AltConst CapConst AltInv CapellaBlock Admissible Safe) in
/-- `M_sound_capella` — C03 for capella WITHOUT the premise `OpSteps` (see `Zrnt.Proofs.C01.processBlock_capella_eq`). -/
theorem M_sound_capella (cfg : Config) (S0 : State) (p Bm C T k : Nat) (committee : SyncCommittee) (K : P0Const cfg S0 Bm C)
    (KA : P0AConst cfg) (KD : P0DConst cfg Bm) (KL : AltConst cfg S0 Bm T) (KC : CapConst cfg) (hsps : 0 < cfg.SECONDS_PER_SLOT)
    (hF : S0.fork = .capella) (ctx : BlockM.Ctx) (block : SignedBlock) (hb : CapellaBlock cfg Bm block)
    (hi : AltInv cfg S0 p Bm C T committee (Zrnt.Proofs.BlockM.blockNeed block k) ctx S0)
    (htyped : Block.check_types cfg block = .ok ()) (r : Bytes) (hroot : block.o_post_root = some r) :
    (∀ m, Block.process_block cfg S0 block = .error (.invalid m) → BlockM.processBlock cfg ctx S0 block = .err) ∧
    (∀ m, Block.state_transition_post_slots cfg S0 block = .error (.invalid m) → BlockM.postSlotTransition cfg ctx S0 block = .err) ∧
    Safe (BlockM.processBlock cfg ctx S0 block) ∧ Safe (BlockM.postSlotTransition cfg ctx S0 block) ∧
    (∀ post, BlockM.postSlotTransition cfg ctx S0 block = .ok post →
      ∀ m, Block.state_transition_post_slots cfg S0 block ≠ .error (.invalid m)) := by
  have h1 := (Zrnt.Proofs.BlockM.processBlock_capella cfg S0 p Bm C T k committee .capella (by decide) K KA KD KL KC hsps hF ctx block hb hi htyped).1
  have h2 := Zrnt.Proofs.BlockM.postSlot_capella cfg S0 p Bm C T k committee .capella (by decide) K KA KD KL KC hsps hF ctx block hb hi htyped r hroot
  refine ⟨h1.1.2, h2.1.2, h1.2, h2.2, fun post hp m hm => ?_⟩
  have := h2.1.2 m hm
  rw [hp] at this
  cases this

open Zrnt.Proofs.BlockM (P0Const P0AConst P0DConst AltConst CapConst AltInv CapellaBlock Admissible Safe) in
/-- `M_sound_deneb` — C03 for deneb WITHOUT the premise `OpSteps` (see `Zrnt.Proofs.C01.processBlock_deneb_eq`). -/
theorem M_sound_deneb (cfg : Config) (S0 : State) (p Bm C T k : Nat) (committee : SyncCommittee) (K : P0Const cfg S0 Bm C)
    (KA : P0AConst cfg) (KD : P0DConst cfg Bm) (KL : AltConst cfg S0 Bm T) (KC : CapConst cfg) (hsps : 0 < cfg.SECONDS_PER_SLOT)
    (hF : S0.fork = .deneb) (ctx : BlockM.Ctx) (block : SignedBlock) (hb : CapellaBlock cfg Bm block)
    (hi : AltInv cfg S0 p Bm C T committee (Zrnt.Proofs.BlockM.blockNeed block k) ctx S0)
    (htyped : Block.check_types cfg block = .ok ()) (r : Bytes) (hroot : block.o_post_root = some r) :
    (∀ m, Block.process_block cfg S0 block = .error (.invalid m) → BlockM.processBlock cfg ctx S0 block = .err) ∧
    (∀ m, Block.state_transition_post_slots cfg S0 block = .error (.invalid m) → BlockM.postSlotTransition cfg ctx S0 block = .err) ∧
    Safe (BlockM.processBlock cfg ctx S0 block) ∧ Safe (BlockM.postSlotTransition cfg ctx S0 block) ∧
    (∀ post, BlockM.postSlotTransition cfg ctx S0 block = .ok post →
      ∀ m, Block.state_transition_post_slots cfg S0 block ≠ .error (.invalid m)) := by
  have h1 := (Zrnt.Proofs.BlockM.processBlock_capella cfg S0 p Bm C T k committee .deneb (by decide) K KA KD KL KC hsps hF ctx block hb hi htyped).1
  have h2 := Zrnt.Proofs.BlockM.postSlot_capella cfg S0 p Bm C T k committee .deneb (by decide) K KA KD KL KC hsps hF ctx block hb hi htyped r hroot
  refine ⟨h1.1.2, h2.1.2, h1.2, h2.2, fun post hp m hm => ?_⟩
  have := h2.1.2 m hm
  rw [hp] at this
  cases this

open Zrnt.Proofs.BlockM (P0Const P0AConst P0DConst AltConst CapConst AltInv CapellaBlock Admissible Safe) in
/-- `M_sound` — C03, all five forks, WITHOUT the premise `OpSteps`: every block (of the fork's block type) that the
specification rejects is rejected by `ProcessBlock` and by `PostSlotTransition`, without panic and without a runaway loop; a
block the model accepts is not one the specification rejects. `Admissible`: the disjunction over the fork of the pre-state of
the per-fork hypotheses (`Zrnt.Proofs.C01.M_block_refines_S`). -/
theorem M_sound (cfg : Config) (S0 : State) (p Bm C T k : Nat) (committee : SyncCommittee) (K : P0Const cfg S0 Bm C)
    (KA : P0AConst cfg) (KD : P0DConst cfg Bm) (ctx : BlockM.Ctx) (block : SignedBlock)
    (ha : Admissible cfg S0 p Bm C T committee k ctx block)
    (htyped : Block.check_types cfg block = .ok ()) (r : Bytes) (hroot : block.o_post_root = some r) :
    (∀ m, Block.process_block cfg S0 block = .error (.invalid m) → BlockM.processBlock cfg ctx S0 block = .err) ∧
    (∀ m, Block.state_transition_post_slots cfg S0 block = .error (.invalid m) → BlockM.postSlotTransition cfg ctx S0 block = .err) ∧
    Safe (BlockM.processBlock cfg ctx S0 block) ∧ Safe (BlockM.postSlotTransition cfg ctx S0 block) ∧
    (∀ post, BlockM.postSlotTransition cfg ctx S0 block = .ok post →
      ∀ m, Block.state_transition_post_slots cfg S0 block ≠ .error (.invalid m)) := by
  have h1 := Zrnt.Proofs.BlockM.processBlock_any cfg S0 p Bm C T k committee K KA KD ctx block ha htyped
  have h2 := Zrnt.Proofs.BlockM.postSlot_any cfg S0 p Bm C T k committee K KA KD ctx block ha htyped r hroot
  refine ⟨h1.1.2, h2.1.2, h1.2, h2.2, fun post hp m hm => ?_⟩
  have := h2.1.2 m hm
  rw [hp] at this
  cases this

/-- from capella on the payload's parent hash is compared with the state's latest payload header ALWAYS — also when that
header is still the default one (bellatrix's merge-complete gate is gone): a payload the model accepts has the parent
hash of the header in the state -/
theorem payload_parent_hash_checked_from_capella (cfg : Config) (s s' : State) (block : SignedBlock) (payload : ExecutionPayload)
    (hf : s.fork ≥ .capella) (h : BlockM.processExecutionPayload cfg s block payload = .ok s') :
    ∃ latest, s.latest_execution_payload_header = some latest ∧ payload.fields.parent_hash = latest.block_hash := by
  have hnb : s.fork ≠ .bellatrix := by intro hb; rw [hb] at hf; exact absurd hf (by decide)
  unfold BlockM.processExecutionPayload at h
  simp only [Zrnt.Proofs.BlockM.guard_bind, Zrnt.Proofs.BlockM.ofOpt_bind] at h
  split at h
  · cases hl : s.latest_execution_payload_header with
    | none => rw [hl] at h; cases h
    | some latest =>
      rw [hl] at h
      simp only [hnb, if_false, Bool.not_true, Bool.false_or] at h
      split at h
      · rename_i hp
        exact ⟨latest, rfl, by simpa using hp⟩
      · cases h
  · cases h

end Zrnt.Proofs.C03
