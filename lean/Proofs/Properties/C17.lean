import Proofs.Lemmas.Monitor
import Proofs.Lemmas.LockBridge
import Zrnt.Conc.LockCheck
import Zrnt.Conc.LockFactsBaseline
import Zrnt.Gen.LockFacts
import Zrnt.Gen.LockFactsOk
/-!
# C17 — components documented as shared are safe under concurrent use

Two layers.

**(A) The monitor abstraction** (`Zrnt/Conc/Monitor.lean`): threads calling operations of one object guarded by
a mutex / RW-mutex, interleaved instruction by instruction. If every operation is ONE critical section of the
object's lock (`WellFormed`: `acq m; accesses…; rel`, hence finite, no re-acquire, every access inside, and a
read-locked body writes nothing), then

* `monitor_linearizable` — every complete concurrent execution ends in the shared state, and gives every
  call the result, of the sequential execution of the calls in lock-acquisition order;
* `monitor_progress` + `monitor_terminates` — some thread can always step until all calls are done, and every
  step consumes one instruction: no call blocks forever;
* `monitor_race_free` — never are two conflicting accesses of different threads enabled together.

The premises are necessary: `reentry_deadlocks`, `unguarded_access_races`, `writing_reader_races`,
`two_sections_not_linearizable` exhibit, in the same semantics, the schedule that breaks each conclusion
when one premise is dropped.

**(B) The regenerated lock facts** (`Zrnt.Gen.LockFacts`, emitted by `go/cmd/extract/lockfacts.go` from /repo's
current source on every run): `no_reentry`, `guarded_access`, `readers_pure`, `single_section`,
`no_unsynchronised_handout`, `cross_instance_calls_locked` state that every exported method of ProtoForkChoice, PubkeyCache, CachedPubkey and
the five pools satisfies the syntactic counterpart of each premise (one kernel-checked `decide` per method in
`Zrnt.Gen.LockFactsOk`, lifted here). On the tree as first received five of them were false; the `baseline_*`
theorems prove the negations on the frozen table of that tree, name the model schedule, and the schedules were
replayed on the real code (go/internal/conc) before the `fix:` commits.

What is NOT proved: that the Go methods refine the monitor code the facts describe (that is the extractor +
the replays/stress runs under the race detector), the Go memory model ("a mutex orders what it guards"), the
scheduler, and writer preference of `sync.RWMutex`.
-/
namespace Zrnt.Proofs.C17
open Zrnt.Conc Zrnt.Conc.Monitor

/-! ## (A) the monitor abstraction -/
section Model
variable {σ ℓ : Type}

/-- **Linearizability in lock-acquisition order.** In a system whose operations are all well-formed (one
critical section each), every execution in which all calls have returned has: each thread acquired at most
once and every non-empty call did; the final shared state is that of running the calls one after the other
in acquisition order (`c.order`); and every call's result (its final local state) is the one it gets in
that sequential run. -/
theorem monitor_linearizable (s0 : σ) (sys : Nat → Thread σ ℓ) (wf : ∀ i, WellFormed (sys i).code)
    (c : Config σ ℓ) (h : Reach (init s0 sys) c) (hd : allDone c) :
    c.order.Nodup ∧ (∀ i, (sys i).code ≠ [] → i ∈ c.order) ∧
    c.sh = (seqExec c.order (s0, sys)).1 ∧
    ∀ i, (c.ths i).loc = ((seqExec c.order (s0, sys)).2 i).loc := by
  have I := Inv.reach wf h
  have hnh : ∀ i, ¬ c.lock.holds i := by
    intro i hi
    obtain ⟨b, hb, _⟩ := I.shape i hi
    rw [hd i] at hb
    cases b <;> simp at hb
  refine ⟨I.nodup, ?_, ?_, ?_⟩
  · intro i hne
    apply Classical.byContradiction
    intro ho
    apply hne
    rw [← (I.fresh i ho).1]; exact hd i
  · have := I.absSh
    cases hw : c.lock.writer with
    | none => rw [hw] at this; exact this.symm
    | some w => exact absurd (Or.inl hw) (hnh w)
  · intro i
    by_cases ho : i ∈ c.order
    · have := I.absLoc i ho
      rw [hd i] at this
      simpa using this.symm
    · rw [seqExec_other _ _ _ ho, (I.fresh i ho).1]

/-- **No deadlock.** As long as some call has not returned, some thread can take a step. -/
theorem monitor_progress (s0 : σ) (sys : Nat → Thread σ ℓ) (wf : ∀ i, WellFormed (sys i).code)
    (c : Config σ ℓ) (h : Reach (init s0 sys) c) (hnd : ¬ allDone c) : ∃ c', Step c c' := by
  have I := Inv.reach wf h
  have holder_steps : ∀ i, c.lock.holds i → ∃ c', step? c i = some c' := by
    intro i hi
    obtain ⟨b, hb, _⟩ := I.shape i hi
    cases b with
    | nil =>
      simp only [List.map_nil, List.nil_append] at hb
      rcases hi with hw | hr
      · exact ⟨_, by simp only [step?, hb, hw, if_true]; rfl⟩
      · by_cases hw : c.lock.writer = some i
        · exact ⟨_, by simp only [step?, hb, hw, if_true]; rfl⟩
        · exact ⟨_, by simp only [step?, hb, hw, hr, if_true, if_false]; rfl⟩
    | cons a b =>
      simp only [List.map_cons, List.cons_append] at hb
      exact ⟨_, by simp only [step?, hb]; rfl⟩
  cases hw : c.lock.writer with
  | some w =>
    obtain ⟨c', hc'⟩ := holder_steps w (Or.inl hw)
    exact ⟨c', w, hc'⟩
  | none =>
    cases hr : c.lock.readers with
    | cons r rs =>
      obtain ⟨c', hc'⟩ := holder_steps r (Or.inr (by simp [hr]))
      exact ⟨c', r, hc'⟩
    | nil =>
      have ⟨i, hi⟩ : ∃ i, (c.ths i).code ≠ [] := by
        apply Classical.byContradiction
        intro hne
        apply hnd
        intro i
        apply Classical.byContradiction
        intro hi
        exact hne ⟨i, hi⟩
      rcases I.head_cases i with h0 | ⟨_, m, body, hc, _⟩ | ⟨hh, _⟩
      · exact absurd h0 hi
      · cases m with
        | w => exact ⟨_, i, by simp only [step?, hc, hw, hr, and_self, if_true]; rfl⟩
        | r => exact ⟨_, i, by simp only [step?, hc, hw, if_true]; rfl⟩
      · rcases hh with h1 | h1
        · rw [hw] at h1; cases h1
        · rw [hr] at h1; cases h1

/-- **Termination.** With `n` threads, every step strictly decreases the number of instructions left, so an
execution has at most `remaining n (init …)` steps; together with `monitor_progress`: every call returns. -/
theorem monitor_terminates (n : Nat) {c c' : Config σ ℓ} (hb : ∀ i, n ≤ i → (c.ths i).code = []) (h : Step c c') :
    remaining n c' < remaining n c ∧ ∀ i, n ≤ i → (c'.ths i).code = [] :=
  step_remaining n hb h

/-- **Race freedom.** In no reachable configuration are two different threads both about to access the same
field with at least one of them writing. -/
theorem monitor_race_free (s0 : σ) (sys : Nat → Thread σ ℓ) (wf : ∀ i, WellFormed (sys i).code)
    (c : Config σ ℓ) (h : Reach (init s0 sys) c) : ¬ Race c := by
  have I := Inv.reach wf h
  have key : ∀ i a, nextAct c i = some a →
      c.lock.holds i ∧ (c.lock.writer ≠ some i → a.write = false) := by
    intro i a ha
    have hcode : ∃ rest, (c.ths i).code = .act a :: rest := by
      unfold nextAct at ha
      split at ha
      · rename_i a' rest hc; injection ha with ha; subst ha; exact ⟨rest, hc⟩
      · cases ha
    obtain ⟨rest, hc⟩ := hcode
    rcases I.head_cases i with h0 | ⟨_, m, body, hc', _⟩ | ⟨hh, body, hc', hb⟩
    · rw [h0] at hc; cases hc
    · rw [hc'] at hc; cases hc
    · refine ⟨hh, ?_⟩
      intro hnw
      cases body with
      | nil => rw [hc'] at hc; cases hc
      | cons a' body =>
        rw [hc'] at hc
        simp only [List.map_cons, List.cons_append, List.cons.injEq, Instr.act.injEq] at hc
        have := hb.2 (by simp [hnw]) a' (by simp)
        rw [← hc.1]; exact this
  rintro ⟨i, j, a, b, hij, ha, hb, _, hw⟩
  obtain ⟨hi, hia⟩ := key i a ha
  obtain ⟨hj, hjb⟩ := key j b hb
  by_cases hwi : c.lock.writer = some i
  · have hr := I.excl i hwi
    rcases hj with h1 | h1
    · rw [hwi] at h1; injection h1 with h1; exact hij h1
    · rw [hr] at h1; cases h1
  · by_cases hwj : c.lock.writer = some j
    · have hr := I.excl j hwj
      rcases hi with h1 | h1
      · exact hwi h1
      · rw [hr] at h1; cases h1
    · rcases hw with hw | hw
      · rw [hia hwi] at hw; cases hw
      · rw [hjb hwj] at hw; cases hw

end Model

/-! ### Non-vacuity: a two-thread system that satisfies the premises

Shared state: a counter. Thread 0 is a writer (`Lock; n++; Unlock`), thread 1 a reader
(`RLock; result := n; RUnlock`). -/

def incr : Act Nat Nat := ⟨0, true, fun s l => (s + 1, l)⟩
def look : Act Nat Nat := ⟨0, false, fun s _ => (s, s)⟩

def demo : Nat → Thread Nat Nat
  | 0 => ⟨[.acq .w, .act incr, .rel], 0⟩
  | 1 => ⟨[.acq .r, .act look, .rel], 0⟩
  | _ => ⟨[], 0⟩

theorem demo_wf : ∀ i, WellFormed (demo i).code := by
  intro i
  match i with
  | 0 => exact .inr ⟨.w, [incr], rfl, by simp [Act.honest, incr], by simp⟩
  | 1 => exact .inr ⟨.r, [look], rfl, by simp [Act.honest, look], by simp [look]⟩
  | _ + 2 => exact .inl rfl

/-- the premises are satisfiable, and both acquisition orders occur: the reader sees 1 after the writer, 0 before -/
example : ∃ c, runSchedule [0, 0, 0, 1, 1, 1] (init 0 demo) = some c ∧ c.order = [0, 1] ∧ c.sh = 1 ∧ (c.ths 1).loc = 1 :=
  ⟨_, rfl, rfl, rfl, rfl⟩
example : ∃ c, runSchedule [1, 1, 1, 0, 0, 0] (init 0 demo) = some c ∧ c.order = [1, 0] ∧ c.sh = 1 ∧ (c.ths 1).loc = 0 :=
  ⟨_, rfl, rfl, rfl, rfl⟩
/-- … and the theorems apply to it -/
example (c : Config Nat Nat) (h : Reach (init 0 demo) c) : ¬ Race c := monitor_race_free 0 demo demo_wf c h

/-! ### The premises are necessary: the schedule behind each failing premise -/

/-- **Re-entry ⇒ self-deadlock** (shape of `UpdateJustified → fc.InSubtree` on the baseline tree): one thread,
`Lock; read pin; Lock (inside the callee); …`. After two steps the thread is the writer and is about to
acquire again: from then on, in EVERY continuation, it never moves and the lock is never released — no
execution ever completes. A single call suffices; the replay is that call under a watchdog. -/
def reentrant : Nat → Thread Unit Unit
  | 0 => ⟨[.acq .w, .act ⟨4, false, fun s l => (s, l)⟩, .acq .w, .act ⟨1, false, fun s l => (s, l)⟩, .rel, .rel], ()⟩
  | _ => ⟨[], ()⟩

theorem reentry_deadlocks :
    ∃ c, runSchedule [0, 0] (init () reentrant) = some c ∧
      ∀ c', Reach c c' → c'.lock.writer = some 0 ∧ ¬ allDone c' := by
  refine ⟨_, rfl, ?_⟩
  intro c' h
  have := self_deadlock (i := 0) (m := .w) (rest := [.act ⟨1, false, fun s l => (s, l)⟩, .rel, .rel]) rfl rfl c' h
  refine ⟨this.1, ?_⟩
  intro hd
  have h0 := hd 0
  rw [this.2] at h0
  cases h0

/-- **An access outside the lock ⇒ race** (shape of `AttestationPool.Search`/`Prune`, `SyncCommitteePool.Reset`,
`CachedPubkey.Pubkey` on the baseline tree): thread 0 writes field 2 without the lock, thread 1 writes it
inside a proper critical section. After thread 1 acquires, both writes are enabled together. -/
def unguarded : Nat → Thread Nat Unit
  | 0 => ⟨[.act ⟨2, true, fun s l => (s + 1, l)⟩], ()⟩
  | 1 => ⟨[.acq .w, .act ⟨2, true, fun s l => (s + 1, l)⟩, .rel], ()⟩
  | _ => ⟨[], ()⟩

theorem unguarded_access_races : ∃ c, Reach (init 0 unguarded) c ∧ Race c := by
  refine ⟨_, runSchedule_reach [1] (init 0 unguarded) _ rfl, 0, 1, _, _, by decide, rfl, rfl, rfl, .inl rfl⟩

/-- **A write under the read lock ⇒ race**: two threads hold the lock in read mode and both write field 3. -/
def writingReader : Nat → Thread Nat Unit
  | 0 => ⟨[.acq .r, .act ⟨3, true, fun s l => (s + 1, l)⟩, .rel], ()⟩
  | 1 => ⟨[.acq .r, .act ⟨3, true, fun s l => (s + 1, l)⟩, .rel], ()⟩
  | _ => ⟨[], ()⟩

theorem writing_reader_races : ∃ c, Reach (init 0 writingReader) c ∧ Race c := by
  refine ⟨_, runSchedule_reach [0, 1] (init 0 writingReader) _ rfl, 0, 1, _, _, by decide, rfl, rfl, rfl, .inl rfl⟩

/-- **Two sections ⇒ not linearizable** (shape of `PubkeyCache.AddValidator(5, K)` on the baseline tree). Shared
state: the number of validators in the cache. `add 5`: under the read lock remember whether index 5 exists;
release; under the write lock: if it existed return ok (no-op), else if the count is 5 append and return ok,
else return an error. Locals: `(existed, result)` with result 0 = pending, 1 = ok, 2 = error. -/
def addCheck (i : Nat) : Act Nat (Bool × Nat) := ⟨0, false, fun s l => (s, (decide (i < s), l.2))⟩
def addAct (i : Nat) : Act Nat (Bool × Nat) :=
  ⟨0, true, fun s l => if l.1 then (s, (l.1, 1)) else if s = i then (s + 1, (l.1, 1)) else (s, (l.1, 2))⟩

def addadd : Nat → Thread Nat (Bool × Nat)
  | 0 => ⟨[.acq .r, .act (addCheck 5), .rel, .acq .w, .act (addAct 5), .rel], (false, 0)⟩
  | 1 => ⟨[.acq .r, .act (addCheck 5), .rel, .acq .w, .act (addAct 5), .rel], (false, 0)⟩
  | _ => ⟨[], (false, 0)⟩

/-- The schedule `T0 checks, T1 checks, T0 appends, T1 acts` ends with results (ok, error); both sequential
orders of the two calls give (ok, ok). So no sequential order explains the concurrent outcome. -/
theorem two_sections_not_linearizable :
    (∃ c, Reach (init 5 addadd) c ∧ (c.ths 0).code = [] ∧ (c.ths 1).code = [] ∧
        ((c.ths 0).loc.2, (c.ths 1).loc.2) = (1, 2)) ∧
    (∀ order, order = [0, 1] ∨ order = [1, 0] →
        (((seqExec order (5, addadd)).2 0).loc.2, ((seqExec order (5, addadd)).2 1).loc.2) = (1, 1)) := by
  refine ⟨⟨_, runSchedule_reach [0, 0, 0, 1, 1, 1, 0, 0, 0, 1, 1, 1] (init 5 addadd) _ rfl, rfl, rfl, rfl⟩, ?_⟩
  intro order h
  rcases h with h | h <;> subst h <;> rfl

/-! ## (B) the regenerated lock facts -/
section Facts
open Zrnt.Gen.LockFacts Zrnt.Gen.LockFactsOk

/-- the obligations cover every method of every shared type of the regenerated table -/
theorem table_complete : rows = sharedRows all := rows_complete

theorem row_ok (r : Nat × Nat) (hr : r ∈ sharedRows all) : methodOk all r.1 r.2 = true :=
  all_ok r (table_complete ▸ hr)

theorem exported_ok (r : Nat × Nat) (hr : r ∈ sharedRows all) (he : (getM (getT all r.1) r.2).exported = true) :
    noReentry (getT all r.1) r.2 = true ∧ guardedAccess all (getT all r.1) r.2 = true ∧
    readersPure all (getT all r.1) r.2 = true ∧ singleSection (getT all r.1) r.2 = true ∧
    noHandout all (getT all r.1) r.2 = true ∧ crossInstanceLocked all (getT all r.1) r.2 = true := by
  have h := row_ok r hr
  simp only [methodOk, methodOkT, he, if_true, Bool.and_eq_true] at h
  obtain ⟨⟨⟨⟨⟨⟨h1, h2⟩, h3⟩, h4⟩, h5⟩, _⟩, h7⟩ := h
  exact ⟨h1, h2, h3, h4, h5, h7⟩

/-- no exported method of a shared component reaches, while holding the component's lock, a method that
acquires that lock (nor a nested acquire, nor a child-object call that locks this object again) -/
theorem no_reentry (r : Nat × Nat) (hr : r ∈ sharedRows all) (he : (getM (getT all r.1) r.2).exported = true) :
    noReentry (getT all r.1) r.2 = true := (exported_ok r hr he).1

/-- every access (own or through same-receiver callees / the implementation behind an interface field) to a
field that some non-constructor method writes happens with the lock held -/
theorem guarded_access (r : Nat × Nat) (hr : r ∈ sharedRows all) (he : (getM (getT all r.1) r.2).exported = true) :
    guardedAccess all (getT all r.1) r.2 = true := (exported_ok r hr he).2.1

/-- nothing is written while the lock is only read-held -/
theorem readers_pure (r : Nat × Nat) (hr : r ∈ sharedRows all) (he : (getM (getT all r.1) r.2).exported = true) :
    readersPure all (getT all r.1) r.2 = true := (exported_ok r hr he).2.2.1

/-- every exported method is at most one critical section, released on every path -/
theorem single_section (r : Nat × Nat) (hr : r ∈ sharedRows all) (he : (getM (getT all r.1) r.2).exported = true) :
    singleSection (getT all r.1) r.2 = true := (exported_ok r hr he).2.2.2.1

/-- no exported method returns an alias of guarded memory that is written in place -/
theorem no_unsynchronised_handout (r : Nat × Nat) (hr : r ∈ sharedRows all) (he : (getM (getT all r.1) r.2).exported = true) :
    noHandout all (getT all r.1) r.2 = true := (exported_ok r hr he).2.2.2.2.1

/-- every method an exported method invokes on ANOTHER instance of its type (`pc.parent.…`, a freshly forked
child) takes that instance's lock around all its accesses to guarded fields: the caller's own lock does not
protect the other object (an unlocked `unsafe*` helper must never be called across instances) -/
theorem cross_instance_calls_locked (r : Nat × Nat) (hr : r ∈ sharedRows all) (he : (getM (getT all r.1) r.2).exported = true) :
    crossInstanceLocked all (getT all r.1) r.2 = true := (exported_ok r hr he).2.2.2.2.2

/-- non-vacuity: the rule has instances in the table (PubkeyCache reaches its parent and forked children) -/
example : (crossCallees (getT all 1) (fuelOf (getT all 1)) 4).length ≥ 2 := by decide

/-- **Bridge.** Read as monitor code (`Zrnt.Conc.modelCode`: unguarded accesses first, then `acq`, the accesses
made with the lock held, a second `acq` if the call re-enters, `rel`, further sections), every exported row of
the regenerated table is `WellFormed` — i.e. satisfies the premises of the monitor theorems. -/
theorem rows_wellFormed (r : Nat × Nat) (hr : r ∈ sharedRows all) (he : (getM (getT all r.1) r.2).exported = true) :
    WellFormed (modelCode all (getT all r.1) r.2) :=
  modelCode_wellFormed all (getT all r.1) r.2 he (row_ok r hr)

/-- **The monitor theorems, instantiated with the regenerated table.** Take any shared type `ti` of the table
and let every thread run the monitor code of some exported method of it (`pick i`; `none` = no call). Then in
every reachable configuration there is no data race, some thread can step unless all calls have returned, and
when they have, shared state and results are those of the sequential execution in lock-acquisition order. -/
theorem table_system_safe (ti : Nat) (hti : ti < all.length) (hs : (getT all ti).role = .shared)
    (pick : Nat → Option Nat)
    (hpick : ∀ i mi, pick i = some mi → mi < (getT all ti).methods.length ∧ (getM (getT all ti) mi).exported = true)
    (sys : Nat → Thread Unit Unit)
    (hsys : ∀ i, sys i = match pick i with
                        | some mi => ⟨modelCode all (getT all ti) mi, ()⟩
                        | none => ⟨[], ()⟩)
    (c : Config Unit Unit) (h : Reach (init () sys) c) :
    ¬ Race c ∧ (¬ allDone c → ∃ c', Step c c') ∧
    (allDone c → c.order.Nodup ∧ c.sh = (seqExec c.order ((), sys)).1 ∧
        ∀ i, (c.ths i).loc = ((seqExec c.order ((), sys)).2 i).loc) := by
  have wf : ∀ i, WellFormed (sys i).code := by
    intro i
    rw [hsys i]
    cases hp : pick i with
    | none => exact .inl rfl
    | some mi =>
      obtain ⟨hlt, he⟩ := hpick i mi hp
      have hr : (ti, mi) ∈ sharedRows all := by
        simp only [sharedRows, List.mem_flatMap, List.mem_range]
        refine ⟨ti, hti, ?_⟩
        simp only [hs, beq_self_eq_true, if_true, List.mem_map, List.mem_range]
        exact ⟨mi, hlt, rfl⟩
      exact rows_wellFormed (ti, mi) hr he
  refine ⟨monitor_race_free () sys wf c h, monitor_progress () sys wf c h, ?_⟩
  intro hd
  obtain ⟨h1, _, h3, h4⟩ := monitor_linearizable () sys wf c h hd
  exact ⟨h1, h3, h4⟩

/-- non-vacuity of `table_system_safe`: a real instance (two threads calling `VoluntaryExitPool.AddVoluntaryExit`
and `.All`), whose codes are non-empty critical sections -/
example : ∃ ti, ti < all.length ∧ (getT all ti).role = .shared ∧ (getT all ti).name = "VoluntaryExitPool" ∧
    (modelCode all (getT all ti) 0).length ≥ 3 ∧ (modelCode all (getT all ti) 1).length ≥ 3 := by
  refine ⟨7, by decide, by decide, by decide, by decide, by decide⟩

/-- non-vacuity: the table is not empty, contains the components the property names, and has exported rows -/
example : (sharedRows all).length ≥ 40 := by decide
example : (all.filter (·.role == .shared)).map (·.name) =
    ["ProtoForkChoice", "PubkeyCache", "CachedPubkey", "AttestationPool", "AttesterSlashingPool",
     "ProposerSlashingPool", "SyncCommitteePool", "VoluntaryExitPool"] := by decide
example : ((sharedRows all).filter (fun r => (getM (getT all r.1) r.2).exported)).length ≥ 35 := by decide
/-- the predicates are not trivially true: they are false on rows of the baseline table (below) -/
example : (failures Zrnt.Conc.Baseline.all).length = 7 := by decide

end Facts

/-! ## The tree as first received: negations on the frozen baseline table, and their schedules

Rows of `Zrnt.Conc.Baseline.all` (type index, method index): ProtoForkChoice.UpdateJustified (0,2),
PubkeyCache.Pubkey (1,0), PubkeyCache.AddValidator (1,4), CachedPubkey.Pubkey (2,0), AttestationPool.Search
(3,1), AttestationPool.Prune (3,2), SyncCommitteePool.Reset (6,4). -/
section Baseline
open Zrnt.Conc.Baseline

/-- `UpdateJustified` calls the locking `fc.InSubtree` while holding `mu`: schedule `reentry_deadlocks`
(one call, blocks forever). Replayed: `conc deadlock ProtoForkChoice UpdateJustified` ⇒ `blocked`. Fixed by a6501c8. -/
theorem baseline_no_reentry_false :
    (getM (getT all 0) 2).name = "UpdateJustified" ∧ noReentry (getT all 0) 2 = false := by decide

/-- `Search`, `Prune`, `Reset` and `CachedPubkey.Pubkey` touch written fields with no lock: schedule
`unguarded_access_races`. Replayed under the race detector (pairs with `AddAttestation`,
`AddSyncCommitteeMessage`, itself). Fixed by 22ec15f, 342ed7c, f2c08a6. -/
theorem baseline_guarded_access_false :
    guardedAccess all (getT all 3) 1 = false ∧ guardedAccess all (getT all 3) 2 = false ∧
    guardedAccess all (getT all 6) 4 = false ∧ guardedAccess all (getT all 2) 0 = false := by decide

/-- `AddValidator` is three critical sections (two read-locked lookups, then the write-locked append):
schedule `two_sections_not_linearizable`. Replayed: `conc nonlin PubkeyCache AddValidator` (probabilistic;
hit within the first rounds). Fixed by f71df86. -/
theorem baseline_single_section_false :
    (getM (getT all 1) 4).name = "AddValidator" ∧ sectionCount (getT all 1) (fuelOf (getT all 1)) 4 = 3 ∧
    singleSection (getT all 1) 4 = false := by decide

/-- `PubkeyCache.Pubkey` returns `&idx2pub[i]`, the address of guarded slice memory, whose `decompressed`
field `CachedPubkey.Pubkey` then writes without a lock while `AddValidator`'s append copies the element:
schedule `unguarded_access_races`. Replayed under the race detector (`CachedPubkey.Pubkey` ‖ `AddValidator`).
Fixed by f2c08a6. -/
theorem baseline_no_unsynchronised_handout_false :
    (getM (getT all 1) 0).name = "Pubkey" ∧ noHandout all (getT all 1) 0 = false := by decide

/-- two threads running the monitor code of two rows of a table -/
def rowSys (all : List TypeFacts) (ti m0 m1 : Nat) : Nat → Thread Unit Unit
  | 0 => ⟨modelCode all (getT all ti) m0, ()⟩
  | 1 => ⟨modelCode all (getT all ti) m1, ()⟩
  | _ => ⟨[], ()⟩

/-- the schedule derived from the baseline ROW itself: the monitor code of `UpdateJustified` (33 accesses under
the lock, then the re-entrant acquire) run alone blocks after 34 steps, forever -/
theorem baseline_updateJustified_model_deadlocks :
    ∃ c, runSchedule (List.replicate 34 0) (init () (rowSys all 0 2 2)) = some c ∧
      ∀ c', Reach c c' → c'.lock.writer = some 0 ∧ ¬ allDone c' := by
  refine ⟨_, rfl, ?_⟩
  intro c' h
  have := self_deadlock (i := 0) (m := .w) (rest := [.rel]) rfl rfl c' h
  refine ⟨this.1, fun hd => ?_⟩
  have h0 := hd 0
  rw [this.2] at h0
  cases h0

/-- the schedule derived from the baseline ROWS of `AttestationPool.Search` (thread 0) and `Prune` (thread 1):
after Prune's first step, Search is about to read `datas` while Prune is about to write it -/
theorem baseline_search_prune_model_race :
    ∃ c, Reach (init () (rowSys all 3 1 2)) c ∧ Race c := by
  refine ⟨_, runSchedule_reach [1] (init () (rowSys all 3 1 2)) _ rfl, 0, 1, _, _, by decide, rfl, rfl, rfl, .inr rfl⟩

/-- `readers_pure` held on the baseline tree as well (no method writes under `RLock`) -/
theorem baseline_readers_pure :
    ∀ r ∈ sharedRows all, readersPure all (getT all r.1) r.2 = true := by decide

end Baseline

end Zrnt.Proofs.C17
