import Proofs.Lemmas.PubkeyCacheSim
import Proofs.Lemmas.PubkeyCacheOld
/-!
# C16 — the pubkey cache maps index and key exactly along each deposit history

Model: `Zrnt.PubkeyCache` (`Model.lean`: a store of cache levels addressed by handle, `pubkey`,
`validatorIndex`, `addValidator` with the control flow of `eth2/beacon/common/validator_pubkeys.go`
after the `fix:` commit; `Old.*` is the code before it). Specification: `Spec.lean` — every handle
denotes the list of keys successfully appended along its lineage, and nothing else.

`Hist s h H d` ("handle `h` of store `s` denotes history `H` through a parent chain of `d` levels")
and the store invariant `WF` are defined in `Proofs/Lemmas/PubkeyCache.lean`. The theorems below hold
for **every** sequence of operations on any number of handles forked from one another
(`MState.run` from `MState.init`), not for sampled ones.
-/
namespace Zrnt.Proofs.C16
open Zrnt Zrnt.PubkeyCache

/-- Every state reachable by any operation sequence satisfies the store invariant and is related to the
state of the history machine. -/
theorem reachable_rel (ops : List Op) : Rel (MState.init.run ops).1 (Spec.SState.init.run ops).1 :=
  (run_refines rel_init ops).1

/-- **lookup_refines_history.** For every operation sequence (AddValidator calls on any handles, forks,
`NewPubkeyCache`, interleaved lookups) every answer of the cache — the result of each `AddValidator`
(same handle / new handle / error) and of each `Pubkey` and `ValidatorIndex` lookup on every handle — is
the answer of the history machine, in which a handle's history changes only by appends made through
that handle. In particular a handle never reports an entry that exists only on a sibling history. -/
theorem lookup_refines_history (ops : List Op) :
    (MState.init.run ops).2 = (Spec.SState.init.run ops).2 :=
  (run_refines rel_init ops).2

/-- the same, spelled out for a lookup made after an arbitrary history: index → key … -/
theorem pubkey_after_history (ops : List Op) (h index : Nat) :
    ((MState.init.run ops).1.step (.pub h index)).2 = ((Spec.SState.init.run ops).1.step (.pub h index)).2 :=
  (step_refines (reachable_rel ops) _).2

/-- … and key → index. -/
theorem validatorIndex_after_history (ops : List Op) (h : Nat) (key : Key) :
    ((MState.init.run ops).1.step (.idx h key)).2 = ((Spec.SState.init.run ops).1.step (.idx h key)).2 :=
  (step_refines (reachable_rel ops) _).2

/-- store-level form: in a well-formed store the two lookups on a handle are the lookups in its history,
for any fuel at least the depth of the handle's parent chain. -/
theorem lookup_eq_history {s : Store} (hw : WF s) {h : Nat} {H : List Key} {d : Nat} (hh : Hist s h H d)
    {fuel : Nat} (hf : d ≤ fuel) :
    (∀ i, pubkey s fuel h i = .ok H[i]?) ∧ (∀ k, validatorIndex s fuel h k = .ok (H.idxOf? k)) :=
  ⟨pubkey_eq hw hh fuel hf, validatorIndex_eq hw hh fuel hf⟩

/-- **addValidator_terminates.** In a well-formed store `AddValidator` returns (a handle or an error)
with fuel `d + 4`, where `d` is the depth of the parent chain of the handle it is called on: at most two
levels are forked out and each lookup walks one chain. -/
theorem addValidator_terminates {s : Store} (hw : WF s) {h : Nat} {H : List Key} {d : Nat} (hh : Hist s h H d)
    (index : Nat) (pub : Key) {fuel : Nat} (hf : d + 4 ≤ fuel) :
    ∃ r, addValidator s fuel h index pub = .ok r := by
  have := addValidator_spec hw hh index pub hf
  cases e : Spec.add H index pub with
  | noop => rw [e] at this; exact ⟨_, this⟩
  | append => rw [e] at this; obtain ⟨s', h1, _⟩ := this; exact ⟨_, h1⟩
  | fork H' => rw [e] at this; obtain ⟨s', h', d', h1, _⟩ := this; exact ⟨_, h1⟩
  | err => rw [e] at this; obtain ⟨s', h1⟩ := this; exact ⟨_, h1⟩

/-- every reachable store is well-formed, every handle in it has a history, and the depth of its chain
is bounded by the number of levels: the fuel `driverFuel` (levels + 4) always suffices. -/
theorem reachable_terminates (ops : List Op) (h : Nat) (hlt : h < (MState.init.run ops).1.store.length)
    (index : Nat) (pub : Key) :
    ∃ r, addValidator (MState.init.run ops).1.store (driverFuel (MState.init.run ops).1.store) h index pub = .ok r := by
  have hw := (reachable_rel ops).wf
  obtain ⟨H, d, hh, hd⟩ := hw.exists_hist h hlt
  exact addValidator_terminates hw hh index pub (by simp [driverFuel]; omega)

/-- no operation sequence makes any call diverge or panic -/
theorem never_diverges (ops : List Op) :
    Out.diverged ∉ (MState.init.run ops).2 ∧ Out.panic ∉ (MState.init.run ops).2 := by
  rw [lookup_refines_history]
  have step : ∀ (sp : Spec.SState) (op : Op), (sp.step op).2 ≠ .diverged ∧ (sp.step op).2 ≠ .panic := by
    intro sp op
    cases op <;> simp only [Spec.SState.step] <;> (repeat' split) <;> simp [Spec.outOfOpt] <;>
      (first | (cases Spec.pubkey _ _ <;> simp) | (cases Spec.validatorIndex _ _ <;> simp))
  have run : ∀ (ops : List Op) (sp : Spec.SState), Out.diverged ∉ (sp.run ops).2 ∧ Out.panic ∉ (sp.run ops).2 := by
    intro ops
    induction ops with
    | nil => intro sp; simp [Spec.SState.run]
    | cons op rest ih =>
      intro sp
      have h1 := step sp op
      have h2 := ih (sp.step op).1
      simp only [Spec.SState.run, List.mem_cons, not_or]
      exact ⟨⟨fun e => h1.1 e.symm, h2.1⟩, ⟨fun e => h1.2 e.symm, h2.2⟩⟩
  exact run ops _

/-- **add_known_noop.** Appending a pair the history already contains returns the same handle and
changes nothing. -/
theorem add_known_noop {s : Store} (hw : WF s) {h : Nat} {H : List Key} {d : Nat} (hh : Hist s h H d)
    {index : Nat} {pub : Key} (hk : H[index]? = some pub) {fuel : Nat} (hf : d + 4 ≤ fuel) :
    addValidator s fuel h index pub = .ok (s, some h) := by
  have := addValidator_spec hw hh index pub hf
  rwa [spec_add_noop hk] at this

/-- **add_conflict_forks.** Appending a pair that conflicts with the history at `index` (another key sits
there; the new key does not occur below `index`) yields a NEW handle whose history is the old one cut at
`index` plus the new key; every existing handle — the old one included — keeps its history, hence all its
lookup answers. -/
theorem add_conflict_forks {s : Store} (hw : WF s) {h : Nat} {H : List Key} {d : Nat} (hh : Hist s h H d)
    {index : Nat} {pub : Key} (hlt : index < H.length) (hne : H[index]? ≠ some pub) (hnot : pub ∉ H.take index)
    {fuel : Nat} (hf : d + 4 ≤ fuel) :
    ∃ s' h' d', addValidator s fuel h index pub = .ok (s', some h') ∧ WF s' ∧ s.length ≤ h' ∧
      Hist s' h' (H.take index ++ [pub]) d' ∧
      ∀ x Hx dx, Hist s x Hx dx → Hist s' x Hx dx ∧
        ∀ f, dx ≤ f → (∀ i, pubkey s' f x i = pubkey s f x i) ∧ (∀ k, validatorIndex s' f x k = validatorIndex s f x k) := by
  have := addValidator_spec hw hh index pub hf
  rw [spec_add_fork hne hlt hnot] at this
  obtain ⟨s', h', d', h1, hw', hge, _, hh', _, hpres⟩ := this
  refine ⟨s', h', d', h1, hw', hge, hh', ?_⟩
  intro x Hx dx hx
  refine ⟨hpres x Hx dx hx, ?_⟩
  intro f hf'
  exact ⟨fun i => by rw [pubkey_eq hw' (hpres x Hx dx hx) f hf', pubkey_eq hw hx f hf'],
         fun k => by rw [validatorIndex_eq hw' (hpres x Hx dx hx) f hf', validatorIndex_eq hw hx f hf']⟩

/-- **add_gap_error.** Appending beyond the next index is an error (and the caller's store is untouched:
`MState.step` keeps the old state on an error). -/
theorem add_gap_error {s : Store} (hw : WF s) {h : Nat} {H : List Key} {d : Nat} (hh : Hist s h H d)
    {index : Nat} (pub : Key) (hgap : H.length < index) {fuel : Nat} (hf : d + 4 ≤ fuel) :
    ∃ s', addValidator s fuel h index pub = .ok (s', none) := by
  have := addValidator_spec hw hh index pub hf
  have hne : H[index]? ≠ some pub := by rw [List.getElem?_eq_none_iff.mpr (by omega)]; simp
  rwa [spec_add_err hne (by omega)] at this

/-- appending the next pair through a handle extends that handle's history in place and is invisible
through every other handle (siblings and children included) -/
theorem add_next_appends {s : Store} (hw : WF s) {h : Nat} {H : List Key} {d : Nat} (hh : Hist s h H d)
    {pub : Key} (hnot : pub ∉ H) {fuel : Nat} (hf : d + 4 ≤ fuel) :
    ∃ s', addValidator s fuel h H.length pub = .ok (s', some h) ∧ WF s' ∧ Hist s' h (H ++ [pub]) d ∧
      ∀ x Hx dx, x ≠ h → Hist s x Hx dx → Hist s' x Hx dx := by
  have := addValidator_spec hw hh H.length pub hf
  rw [spec_add_append rfl hnot] at this
  obtain ⟨s', h1, hw', _, hh', hpres⟩ := this
  exact ⟨s', h1, hw', hh', hpres⟩

/-- **history_prefix_shared.** A level shares with its parent exactly the first `trustedParentCount`
entries: histories of handles forked from one another agree on that prefix (and the fork made by
`add_conflict_forks` agrees with its origin below `index`). -/
theorem history_prefix_shared {s : Store} (hw : WF s) {h p : Nat} {l : Level} {H Hp : List Key} {d dp : Nat}
    (hl : s[h]? = some l) (hp : l.parent = some p) (hh : Hist s h H d) (hhp : Hist s p Hp dp) :
    H.take l.tpc = Hp.take l.tpc ∧ l.tpc ≤ Hp.length := by
  have hle := (hw _ _ hl).tpc_le _ _ _ hp hhp
  obtain ⟨e, _⟩ := hh.functional (Hist.child hl hp hhp)
  subst e
  refine ⟨?_, hle⟩
  rw [List.take_append_of_le_length (by simp [List.length_take]; omega), List.take_take]
  simp

/-! ## The code before the fix: the full theorems were false -/

/-- the store reached by `add 0 0 0 0 ; add 0 1 1 0 ; add 0 1 2 1 ; add 0 2 3 0`: a root with keys 0,1,3 and a
level forked out at index 1 holding key 2 -/
def sibling : Store :=
  [⟨none, 0, [0, 1, 3], [(3, 2), (1, 1), (0, 0)]⟩, ⟨some 0, 1, [2], [(2, 1)]⟩]

theorem sibling_reachable :
    (MState.init.run [.add 0 0 0 0, .add 0 1 1 0, .add 0 1 2 1, .add 0 2 3 0]).1.store = sibling := by decide

/-- `lookup_refines_history` was false for the old code: handle 1 (history `[0, 2]`) reported key 3, which
only the sibling history `[0, 1, 3]` contains; the fixed code answers "unknown". -/
theorem old_lookup_reports_sibling_entry :
    Old.validatorIndex sibling 5 1 3 = .ok (some 2) ∧ validatorIndex sibling 5 1 3 = .ok none := by decide

/-- `addValidator_terminates` was false for the old code: `AddValidator(1, key 0)` on a cache that holds
key 0 at index 0 forks out level after level (here: out of fuel at 64; the Go call never returned), where
the fixed code reports the gap error. -/
theorem old_addValidator_diverges :
    Old.addValidator [⟨none, 0, [0], [(0, 0)]⟩] 64 0 1 0 = .outOfFuel ∧
    ∃ s', addValidator [⟨none, 0, [0], [(0, 0)]⟩] 5 0 1 0 = .ok (s', none) := by
  exact ⟨by decide, [⟨none, 0, [0], [(0, 0)]⟩, ⟨some 0, 0, [], []⟩], by decide⟩

/-- … and not only at fuel 64: the old `AddValidator` runs out of ANY fuel on this input — the modelled
call does not terminate (the harness observed the Go call as `diverged`). -/
theorem old_addValidator_never_terminates (fuel : Nat) :
    Old.addValidator [⟨none, 0, [0], [(0, 0)]⟩] fuel 0 1 0 = .outOfFuel := by
  have := old_add_chain fuel 0
  simpa [divChain] using this

/-! ## Non-vacuity of the hypotheses -/

/-- a well-formed store with a handle whose history is `[0, 2]` through a chain of depth 2 … -/
example : WF sibling ∧ Hist sibling 1 [0, 2] 2 := by
  have hw : WF sibling := by rw [← sibling_reachable]; exact (reachable_rel _).wf
  have h0 : Hist sibling 0 [0, 1, 3] 1 := Hist.root (l := ⟨none, 0, [0, 1, 3], [(3, 2), (1, 1), (0, 0)]⟩) rfl rfl
  exact ⟨hw, Hist.child (l := ⟨some 0, 1, [2], [(2, 1)]⟩) rfl rfl h0⟩

/-- … on which the hypotheses of `add_known_noop`, `add_conflict_forks`, `add_gap_error` hold -/
example : ([0, 2] : List Key)[1]? = some 2 ∧ (1 < ([0, 2] : List Key).length ∧ ([0, 2] : List Key)[1]? ≠ some 5 ∧
    5 ∉ ([0, 2] : List Key).take 1) ∧ ([0, 2] : List Key).length < 7 := by decide

end Zrnt.Proofs.C16
