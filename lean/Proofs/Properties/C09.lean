import Proofs.Lemmas.ForkChoicePass1
import Proofs.Lemmas.ForkChoiceDeltas
/-!
# C09 — fork-choice head is the LMD-GHOST winner for every history

Statements about the code-shaped model `Zrnt.ForkChoice` (tie H: modes `fc09`/`fc10`/`fc11`).
-/
namespace Zrnt.Proofs.C09
open Zrnt.ForkChoice

/-- Back-propagation (first loop of `ApplyScoreChanges`): on an array whose fork-choice parents have smaller
indices the loop never indexes out of range, changes nothing but weights, and adds to the weight of every
node the sum of the deltas over its fork-choice subtree. -/
theorem weights_propagate (ns : List Node) (ds : List Int) (hlen : ds.length = ns.length)
    (hpar : ∀ (i : Nat) (n : Node) (p : Nat), ns[i]? = some n → n.fparent = some p → p < i) :
    ∃ ns' ds', PA.pass1 0 ns.length ns ds = some (ns', ds') ∧ ns'.length = ns.length ∧
      ∀ (i : Nat) (n : Node), ns[i]? = some n →
        ns'[i]? = some { n with weight := n.weight + subSum ns ds i } :=
  pass1_spec ns ds hlen hpar

end Zrnt.Proofs.C09
