import Proofs.Lemmas.ForkChoiceInv2
import Proofs.Lemmas.ForkChoicePass1
import Zrnt.ForkChoice.Spec
/-!
# C09 — fork-choice head is the LMD-GHOST winner for every history

Statements about the code-shaped model `Zrnt.ForkChoice` (`Zrnt/ForkChoice/Model.lean`; tie H: modes
`fc09`/`fc10`/`fc11` run the same operation lines on the real Go code, on this model and on the independent
GHOST oracle `Zrnt.ForkChoice.Spec`).

What is proved here, for ALL operation sequences: the structure invariant (`inv_structure`) and, for all
sequences inside the domain of the refinement, the chain structure, the votes invariant and the weights invariant
(`inv_weights`): the weight of every node is the sum of the balances of the validators whose applied vote lies in
its fork-choice subtree.

What is NOT proved: the last step of the refinement,
  `head_eq_ghost : ∀ ops, Admissible .none ops → answers of `head`/`findhead` in `(run .none ops).2` =
                   those of `(Spec.run none ops).2``
(best-child/best-descendant links equal the specification's choice after a connection pass, hence the head equals
the GHOST walk of `Spec.lean`). On the current tree (after the fixes 6f39f86, e38b1d0, 88e6a0a) it is validated by
the correspondence only: every `head`/`findhead` answer of the Go code is compared with the oracle on the generated
histories (viability changes, vote moves, balance changes, pins included), with no disagreement outside the known
OnPrune family.
-/
namespace Zrnt.Proofs.C09
open Zrnt.ForkChoice

def rt (n : Nat) : Root := n * 256 ^ 31

/-- **Structure invariant, all operation sequences.** As long as nothing has been pruned (offset 0 after every
prefix), the live instance has a free mutex and a well-formed array (`WF`: parents at smaller indices, index map and
array agree, one delta slot per node, best links are children / proper descendants), and no call has panicked,
blocked or looped. -/
theorem inv_structure (ops : List Op) (st : MState) (h : MInv st)
    (hu : ∀ k, k ≤ ops.length → Unpruned (run st (ops.take k)).1) : MInv (run st ops).1 :=
  Zrnt.ForkChoice.inv_structure ops st h hu

/-- **Weights / votes / chain invariants, all admissible operation sequences** (`Admissible`: non-zero roots,
empty-slot insertions under a known root at or after its first slot, finalized checkpoint never moved — so nothing
is pruned). `MInv2 (.live fc)` unfolds to: mutex free, `WF fc.pa`, `Chain fc.pa`, Go's zero `NodeRef` is not a node,
every applied vote is a node, and `WeightsOK fc`. -/
theorem inv_weights (ops : List Op) (ha : Admissible .none ops) : MInv2 (run .none ops).1 :=
  Zrnt.ForkChoice.inv_weights ops .none trivial ha

/-- the weights invariant spelled out: a vote counts once, at the validator's current balance, in every node of the
path from its target up to the root of the array -/
theorem weights_are_subtree_sums (ops : List Op) (ha : Admissible .none ops) (fc : FC)
    (hl : (run .none ops).1 = .live fc) (i : Nat) (n : Node) (hn : fc.pa.nodes[i]? = some n) :
    n.weight = wsum fc.pa fc.votes fc.balances i := by
  have h := inv_weights ops ha
  rw [hl] at h
  exact h.2.w i n hn

/-- non-vacuity: an admissible history with a fork, an empty-slot extension, votes (one of them moved), a
justified-only update with changed balances and a head query -/
def hist : List Op := [
  .init 4 (rt 1) 0 0 ⟨0, rt 1⟩ ⟨0, rt 1⟩ .recording [32, 32],
  .block (rt 1) (rt 2) 1 0 0, .block (rt 1) (rt 3) 2 1 0, .slot (rt 2) 5 0 0,
  .att 0 (rt 2) 1, .att 1 (rt 3) 2, .head, .att 0 (rt 2) 5,
  .justify (rt 1) ⟨1, rt 1⟩ ⟨0, rt 1⟩ (some [1, 33]), .head]

example : Admissible .none hist := admissibleB_sound hist .none (by decide +kernel)

example : (run .none hist).2.getLast? = some (Ans.ref ⟨2, rt 3⟩) ∧
    (Spec.run none hist).2.getLast? = some (Ans.ref ⟨2, rt 3⟩) := by decide +kernel

/-- Back-propagation (first loop of `ApplyScoreChanges`): on an array whose fork-choice parents have smaller
indices the loop never indexes out of range, changes nothing but weights, and adds to the weight of every node the
sum of the deltas over its fork-choice subtree. -/
theorem weights_propagate (ns : List Node) (ds : List Int) (hlen : ds.length = ns.length)
    (hpar : ∀ (i : Nat) (n : Node) (p : Nat), ns[i]? = some n → n.fparent = some p → p < i) :
    ∃ ns' ds', PA.pass1 0 ns.length ns ds = some (ns', ds') ∧ ns'.length = ns.length ∧
      ∀ (i : Nat) (n : Node), ns[i]? = some n →
        ns'[i]? = some { n with weight := n.weight + subSum ns ds i } :=
  pass1_spec ns ds hlen hpar

/-- `ComputeDeltas` + `ApplyScoreChanges` (what `Head` and `UpdateJustified` run): from weights that are the
subtree sums for the old trackers and balances to weights that are the subtree sums for the new ones — unknown-target
pending votes change nothing, a moved vote is subtracted at the old and added at the new balance. -/
theorem score_changes_exact (pr : PA) (h : WF pr) (hz : NoZero pr) (votes : List Vote) (oldB newB : List Nat)
    (hw : WeightsAre pr votes oldB) (ds : List Int) (vs' : List Vote)
    (hd : computeDeltas pr.indices votes oldB newB = some (ds, vs')) (jE fE : Nat) :
    ∃ pr', pr.applyScoreChanges ds jE fE = .ok pr' () ∧ WF pr' ∧ FrameS pr pr' ∧ WeightsAre pr' vs' newB :=
  weights_applyDeltas pr h hz votes oldB newB hw ds vs' hd jE fE

end Zrnt.Proofs.C09
