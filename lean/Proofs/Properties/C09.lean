import Proofs.Lemmas.ForkChoiceSim
import Proofs.Lemmas.ForkChoicePass1
import Proofs.Lemmas.ForkChoiceW0Bridge
import Zrnt.ForkChoice.Spec
import Zrnt.ForkChoice.Old
/-!
# C09 — fork-choice head is the LMD-GHOST winner for every history

Statements about the code-shaped model `Zrnt.ForkChoice` (`Zrnt/ForkChoice/Model.lean`; tie H: modes
`fc09`/`fc10`/`fc11` run the same operation lines on the real Go code, on this model and on the independent
GHOST oracle `Zrnt.ForkChoice.Spec`).

What is proved here:
* for ALL operation sequences, malformed insertions and pruning included: the structure invariant `WF0`
  (`inv_structure`) and that no call panics, blocks or loops; for all sequences that do not move the finalized
  checkpoint the stronger `WF` with consistent best links (`inv_structure_quiet`; pruning a malformed array can
  leave a best child without best descendant, `W0.witMalformed_breaks_WF`);
* for all sequences inside the domain of the refinement (`Admissible`: non-zero roots, well-placed empty-slot
  insertions, a root names one block, a pruned node does not come back while a vote names it) — finalizing
  updates and pruning INCLUDED: chain structure, votes and weights invariants (`inv_weights`: the weight of every
  node is the sum of the balances of the validators whose applied vote lies in its fork-choice subtree),
  correctness of the best-child / best-descendant links after every connection pass (`inv_best`), and the
  refinement itself (`head_eq_ghost`): every `Head()` / `FindHead()` answer of the model, error or value, is the
  answer of the GHOST oracle `Spec.lean`, whose tree after a finalization is the tree restricted to the
  finalized subtree.
Before the rewrite of `ProtoArray.OnPrune` (commit 38d1471 in /repo) the statement was false on histories with
a finalization: `Old.head_eq_ghost_false` keeps the witness against the model of the old code
(`Zrnt/ForkChoice/Old.lean`). Before the fixes 6f39f86 (ComputeDeltas), e38b1d0 (ProcessAttestation guard) and
88e6a0a (non-leading best child) it was false without pruning as well; the minimized witnesses are in
`corpus/fc09.ops`.
-/
namespace Zrnt.Proofs.C09
open Zrnt.ForkChoice

def rt (n : Nat) : Root := n * 256 ^ 31

/-- **Structure invariant, ALL operation sequences** — arbitrary arguments: zero roots, empty-slot insertions under
unknown roots or below the first slot of their root, votes for anything, any checkpoint update, any number of
prunes with any sink. After every history the machine is not `dead` (no call panicked, blocked on the mutex or
looped), the mutex is free and the array satisfies `WF0`: offset 0, index map and array agree (references are
unique), parents have smaller indices, best links point into the array, every known root has its first node. -/
theorem inv_structure (ops : List Op) : MInv0 (run .none ops).1 :=
  inv_structure_all ops .none trivial

/-- the same read on the answers: no answer of any history is `panic`, `blocked` or `dead` -/
theorem no_panic (ops : List Op) : ∀ x ∈ (run .none ops).2, x.isFatal = false :=
  run_total_all_none ops

/-- **Structure invariant with consistent best links, all operation sequences that leave the finalized checkpoint
alone** (`Quiet`; malformed insertions, zero roots, votes for anything are allowed). The live instance has a free
mutex and a well-formed array (`WF`: `WF0`, and the best child is a child, the best descendant a proper descendant,
one is set iff the other is), and no call has panicked, blocked or looped. -/
theorem inv_structure_quiet (ops : List Op) (st : MState) (h : MInv st) (hq : Quiet st ops) : MInv (run st ops).1 :=
  Zrnt.ForkChoice.inv_structure_quiet ops st h hq

/-- **Weights / votes / chain invariants, all admissible operation sequences** (`Admissible`: non-zero roots,
empty-slot insertions under a known root at or after its first slot, a root names one block, pruned nodes that a
vote still names do not come back; `UpdateJustified` is unrestricted, so the history may finalize and prune any
number of times). `MInv2 (.live fc)` unfolds to: mutex free, `WF fc.pa`, `Chain fc.pa`, Go's zero `NodeRef` is not a node,
every applied vote is a node, and `WeightsOK fc`. -/
theorem inv_weights (ops : List Op) (ha : Admissible .none ops) : MInv2 (run .none ops).1 :=
  Zrnt.ForkChoice.inv_weights ops .none trivial ha

/-- the weights invariant spelled out: a vote counts once, at the validator's current balance, in every node of the
path from its target up to the root of the array -/
theorem weights_are_subtree_sums (ops : List Op) (ha : Admissible .none ops) (fc : FC)
    (hl : (run .none ops).1 = .live fc) (i : Nat) (n : Node) (hn : fc.pa.nodes[i]? = some n) :
    n.weight = wsum fc.pa fc.votes fc.balances i := by
  have h := inv_weights ops ha
  rw [hl] at h
  exact h.2.w i n hn

/-- non-vacuity: an admissible history with a fork, an empty-slot extension, votes (one of them moved), a
justified-only update with changed balances and a head query -/
def hist : List Op := [
  .init 4 (rt 1) 0 0 ⟨0, rt 1⟩ ⟨0, rt 1⟩ .recording [32, 32],
  .block (rt 1) (rt 2) 1 0 0, .block (rt 1) (rt 3) 2 1 0, .slot (rt 2) 5 0 0,
  .att 0 (rt 2) 1, .att 1 (rt 3) 2, .head, .att 0 (rt 2) 5,
  .justify (rt 1) ⟨1, rt 1⟩ ⟨0, rt 1⟩ (some [1, 33]), .head]

example : Admissible .none hist := admissibleB_sound hist .none (by decide +kernel)

example : (run .none hist).2.getLast? = some (Ans.ref ⟨2, rt 3⟩) ∧
    (Spec.run none hist).2.getLast? = some (Ans.ref ⟨2, rt 3⟩) := by decide +kernel

/-- Back-propagation (first loop of `ApplyScoreChanges`): on an array whose fork-choice parents have smaller
indices the loop never indexes out of range, changes nothing but weights, and adds to the weight of every node the
sum of the deltas over its fork-choice subtree. -/
theorem weights_propagate (ns : List Node) (ds : List Int) (hlen : ds.length = ns.length)
    (hpar : ∀ (i : Nat) (n : Node) (p : Nat), ns[i]? = some n → n.fparent = some p → p < i) :
    ∃ ns' ds', PA.pass1 0 ns.length ns ds = some (ns', ds') ∧ ns'.length = ns.length ∧
      ∀ (i : Nat) (n : Node), ns[i]? = some n →
        ns'[i]? = some { n with weight := n.weight + subSum ns ds i } :=
  pass1_spec ns ds hlen hpar

/-- `ComputeDeltas` + `ApplyScoreChanges` (what `Head` and `UpdateJustified` run): from weights that are the
subtree sums for the old trackers and balances to weights that are the subtree sums for the new ones — unknown-target
pending votes change nothing, a moved vote is subtracted at the old and added at the new balance. -/
theorem score_changes_exact (pr : PA) (h : WF pr) (hz : NoZero pr) (votes : List Vote) (oldB newB : List Nat)
    (hw : WeightsAre pr votes oldB) (ds : List Int) (vs' : List Vote)
    (hd : computeDeltas pr.indices votes oldB newB = some (ds, vs')) (jE fE : Nat) :
    ∃ pr', pr.applyScoreChanges ds jE fE = .ok pr' () ∧ WF pr' ∧ FrameS pr pr' ∧ WeightsAre pr' vs' newB :=
  weights_applyDeltas pr h hz votes oldB newB hw ds vs' hd jE fE

/-- **inv_best**: after every connection pass (`updateConnections`, also the second loop of `ApplyScoreChanges`) on a
well-formed array whose siblings have different roots, every node's best child is the child with the greatest
(weight, root) among the children that lead to a viable head (none if none leads), its best descendant is where
following best children ends, and `nodeLeadsToViableHead` is exactly `leads`. -/
theorem inv_best (pr : PA) (h : WF pr) (hs : SibDistinct pr) :
    LinksOK (pr.updateConnections).1 ∧
    ∀ (i : Nat) (n : Node), (pr.updateConnections).1.nodes[i]? = some n →
      (pr.updateConnections).1.nodeLeads n = some (leads (pr.updateConnections).1 i) :=
  linksOK_updateConnections pr h hs

/-- **head_eq_ghost.** On every history inside the domain — non-zero roots, empty-slot insertions under a known
root at or after its first slot, no vote for Go's zero `NodeRef`, a root names one block and a pruned node that a
vote still names is not inserted again; checkpoint updates are arbitrary, so the finalized checkpoint may move and
the array is pruned — every `Head()` and `FindHead(anchor, slot)` answer of the model, value or error, equals the
specification's: the LMD-GHOST walk from the pinned/justified start node through the children that lead to a
viable head, taking the greatest (sum of balances of the validators whose latest accepted vote lies in the
subtree, root), on the inserted tree restricted to the finalized subtree. The model and specification states stay
related (`MRef`) throughout. -/
theorem head_eq_ghost (ops : List Op) (ha : Admissible .none ops) :
    HeadsAgree ops (run .none ops).2 (Spec.run none ops).2 ∧ MRef (run .none ops).1 (Spec.run none ops).1 :=
  head_eq_ghost_run ops .none none trivial trivial trivial ha

/-- non-vacuity: `hist` above is admissible and contains two `head` queries -/
example : HeadsAgree hist (run .none hist).2 (Spec.run none hist).2 :=
  (head_eq_ghost hist (admissibleB_sound hist .none (by decide +kernel))).1

/-- non-vacuity with pruning: a fork, votes on both sides, a finalization that drops the losing side (recording
sink), a vote and a block afterwards, a second finalization at an empty-slot checkpoint, heads in between -/
def histF : List Op := [
  .init 4 (rt 1) 0 0 ⟨0, rt 1⟩ ⟨0, rt 1⟩ .recording [32, 32, 32],
  .block (rt 1) (rt 2) 1 0 0, .block (rt 1) (rt 3) 2 0 0, .block (rt 2) (rt 4) 4 1 0, .block (rt 3) (rt 5) 5 1 0,
  .att 0 (rt 4) 4, .att 1 (rt 5) 5, .att 2 (rt 5) 5, .head,
  .justify (rt 4) ⟨1, rt 4⟩ ⟨1, rt 4⟩ (some [32, 32, 33]), .head,
  .block (rt 4) (rt 6) 6 1 1, .att 1 (rt 6) 6, .head, .block (rt 6) (rt 7) 9 2 2, .slot (rt 6) 8 2 2,
  .justify (rt 7) ⟨2, rt 6⟩ ⟨2, rt 6⟩ (some [32, 32, 33]), .head, .findHead (rt 6) 8]

example : Admissible .none histF := admissibleB_sound histF .none (by decide +kernel)

example : HeadsAgree histF (run .none histF).2 (Spec.run none histF).2 :=
  (head_eq_ghost histF (admissibleB_sound histF .none (by decide +kernel))).1

/-- a history with a finalization (gap-slot anchor, no sink): the code's head stays on the empty-slot chain of the
finalized root, the specification's head is the block voted for -/
def witHead : List Op := [
  .init 4 (rt 0xaa + 1) 0 0 ⟨0, rt 0xaa + 1⟩ ⟨0, rt 0xaa + 1⟩ .absent [32, 33, 32],
  .block (rt 0xaa + 1) (rt 0x80) 1 0 0, .att 0 (rt 0x80) 1, .block (rt 0x80) (rt 0xff) 2 1 0,
  .block (rt 0xff) (rt 0x7f) 3 1 0, .block (rt 0x7f) (rt 2) 5 1 1,
  .justify (rt 2) ⟨1, rt 0x7f⟩ ⟨1, rt 0x7f⟩ (some [32, 33, 32]),
  .att 0 (rt 2) 5, .head]

/-- `witHead` is inside the domain, so the theorem applies to it: the rewritten code answers as the specification -/
example : HeadsAgree witHead (run .none witHead).2 (Spec.run none witHead).2 :=
  (head_eq_ghost witHead (admissibleB_sound witHead .none (by decide +kernel))).1

/-- the statement was false of the code before commit 38d1471 (`Zrnt.ForkChoice.Old`: the old `OnPrune`) -/
theorem Old.head_eq_ghost_false :
    ¬ ∀ ops : List Op, HeadsAgree ops (Zrnt.ForkChoice.Old.run .none ops).2 (Spec.run none ops).2 := by
  intro h
  have := headsAgreeB_of _ _ _ (h witHead)
  revert this
  decide +kernel

end Zrnt.Proofs.C09
