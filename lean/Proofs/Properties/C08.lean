import Proofs.Lemmas.Ctx
/-!
# C08 — the incrementally maintained epochs context always matches the state

`Zrnt.Beacon.Ctx.ctxOf` is the context computed from scratch from a state with the specification's
functions; `rotate`, `afterDeposit`, `afterUpgrade` model how zrnt maintains the live context. On every run
the real live `EpochsContext` along generated chains (all forks) is compared with the real
`NewEpochsContext(spec, state)` and with `ctxOf` of the same state (`zmodel c08`), and the reload experiment
is run. The theorems explain *why* the incremental path agrees with the from-scratch path.
-/
namespace Zrnt.Proofs.C08
open Zrnt.Beacon Zrnt.Beacon.Spec Zrnt.Beacon.Ctx Zrnt.Proofs.Ctx

/-- **Look-ahead stability.** With `MIN_SEED_LOOKAHEAD ≥ 1` and `MAX_SEED_LOOKAHEAD ≥ 1`, nothing that a block or
the epoch transition of epoch `N` is allowed to write (`EpochWrites`: activation/exit epochs move only from
`FAR_FUTURE_EPOCH` to `≥ N + 1 + MAX_SEED_LOOKAHEAD`, deposits add inactive validators, only the randao mixes
`N` and `N + 1` are written) changes the active set or any seed of epoch `N + 1` — nor those of the epochs `N` and
`N − 1`, which the context also holds. Hence a shuffling computed one epoch early is the one computed from
scratch later. -/
theorem lookahead_stable {cfg : Config} {N : Nat} {st st' : State} (hw : EpochWrites cfg N st st')
    (hmin : 1 ≤ cfg.MIN_SEED_LOOKAHEAD) (hmax : 1 ≤ cfg.MAX_SEED_LOOKAHEAD)
    (hvec : cfg.MIN_SEED_LOOKAHEAD + 3 < cfg.EPOCHS_PER_HISTORICAL_VECTOR) (hfar : N + 1 < FAR_FUTURE_EPOCH)
    (e : Nat) (he : e ≤ N + 1) (he' : N ≤ e + 1) :
    get_active_validator_indices st' e = get_active_validator_indices st e ∧
    ∀ domain_type, get_seed cfg st' e domain_type = get_seed cfg st e domain_type :=
  ⟨active_stable hw e he hmax hfar, fun d => seed_stable hw e d he he' hmin hvec⟩

/-- consequently the whole shuffling (active indices, shuffled list, committees) of the epochs `N − 1 … N + 1` -/
theorem shuffling_stable {cfg : Config} {N : Nat} {st st' : State} (hw : EpochWrites cfg N st st')
    (hmin : 1 ≤ cfg.MIN_SEED_LOOKAHEAD) (hmax : 1 ≤ cfg.MAX_SEED_LOOKAHEAD)
    (hvec : cfg.MIN_SEED_LOOKAHEAD + 3 < cfg.EPOCHS_PER_HISTORICAL_VECTOR) (hfar : N + 1 < FAR_FUTURE_EPOCH)
    (e : Nat) (he : e ≤ N + 1) (he' : N ≤ e + 1) :
    shufflingOf cfg st' e = shufflingOf cfg st e := by
  obtain ⟨ha, hs⟩ := lookahead_stable hw hmin hmax hvec hfar e he he'
  unfold shufflingOf
  rw [ha, hs]

/-- non-vacuity: a state is related to itself (nothing written), for every epoch -/
example (cfg : Config) (N : Nat) (st : State) : EpochWrites cfg N st st where
  len := Nat.le_refl _
  act := fun _ _ _ h1 h2 => .inl (by rw [h1] at h2; cases h2; rfl)
  exit := fun _ _ _ h1 h2 => .inl (by rw [h1] at h2; cases h2; rfl)
  fresh := fun i v' h1 h2 => by
    have h3 := List.getElem?_eq_none_iff.mpr h1
    rw [h3] at h2
    cases h2
  mixesLen := rfl
  mixes := fun _ _ _ => rfl

end Zrnt.Proofs.C08
