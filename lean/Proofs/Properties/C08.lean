import Proofs.Lemmas.Ctx
/-!
# C08 — the incrementally maintained epochs context always matches the state

`Zrnt.Beacon.Ctx.ctxOf` is the context computed from scratch from a state with the specification's
functions; `rotate`, `afterDeposit`, `afterUpgrade` model how zrnt maintains the live context. On every run
the real live `EpochsContext` along generated chains (all forks) is compared with the real
`NewEpochsContext(spec, state)` and with `ctxOf` of the same state (`zmodel c08`), and the reload experiment
is run. The theorems explain *why* the incremental path agrees with the from-scratch path.
-/
namespace Zrnt.Proofs.C08
open Zrnt.Beacon Zrnt.Beacon.Spec Zrnt.Beacon.Ctx Zrnt.Proofs.Ctx

/-- **Look-ahead stability.** With `MIN_SEED_LOOKAHEAD ≥ 1` and `MAX_SEED_LOOKAHEAD ≥ 1`, nothing that a block or
the epoch transition of epoch `N` is allowed to write (`EpochWrites`: activation/exit epochs move only from
`FAR_FUTURE_EPOCH` to `≥ N + 1 + MAX_SEED_LOOKAHEAD`, deposits add inactive validators, only the randao mixes
`N` and `N + 1` are written) changes the active set or any seed of epoch `N + 1` — nor those of the epochs `N` and
`N − 1`, which the context also holds. Hence a shuffling computed one epoch early is the one computed from
scratch later. -/
theorem lookahead_stable {cfg : Config} {N : Nat} {st st' : State} (hw : EpochWrites cfg N st st')
    (hmin : 1 ≤ cfg.MIN_SEED_LOOKAHEAD) (hmax : 1 ≤ cfg.MAX_SEED_LOOKAHEAD)
    (hvec : cfg.MIN_SEED_LOOKAHEAD + 3 < cfg.EPOCHS_PER_HISTORICAL_VECTOR) (hfar : N + 1 < FAR_FUTURE_EPOCH)
    (e : Nat) (he : e ≤ N + 1) (he' : N ≤ e + 1) :
    get_active_validator_indices st' e = get_active_validator_indices st e ∧
    ∀ domain_type, get_seed cfg st' e domain_type = get_seed cfg st e domain_type :=
  ⟨active_stable hw e he hmax hfar, fun d => seed_stable hw e d he he' hmin hvec⟩

/-- consequently the whole shuffling (active indices, shuffled list, committees) of the epochs `N − 1 … N + 1` -/
theorem shuffling_stable {cfg : Config} {N : Nat} {st st' : State} (hw : EpochWrites cfg N st st')
    (hmin : 1 ≤ cfg.MIN_SEED_LOOKAHEAD) (hmax : 1 ≤ cfg.MAX_SEED_LOOKAHEAD)
    (hvec : cfg.MIN_SEED_LOOKAHEAD + 3 < cfg.EPOCHS_PER_HISTORICAL_VECTOR) (hfar : N + 1 < FAR_FUTURE_EPOCH)
    (e : Nat) (he : e ≤ N + 1) (he' : N ≤ e + 1) :
    shufflingOf cfg st' e = shufflingOf cfg st e := by
  obtain ⟨ha, hs⟩ := lookahead_stable hw hmin hmax hvec hfar e he he'
  unfold shufflingOf
  rw [ha, hs]

/-- **Rotation = from scratch.** Let `c` be the context of a state `st` of epoch `N` (any point of the epoch: by
`chain_ctx_invariant` the live context is `ctxOf` of the current state), and `st'` the state right after the epoch
transition (first slot of epoch `N + 1`, before any block). If the transition wrote only what an epoch may write
(`EpochWrites`), added no validator (`hreg`: deposits happen in blocks and are covered by `afterDeposit_eq_ctxOf`) and
moved the sync committees as `process_sync_committee_updates` does (`SyncStep`: at a period boundary next becomes
current), then what `RotateEpochs` computes — shift two shufflings, compute only the next one, recompute proposers,
stake and (at a period boundary) sync committees — **is** the context of `st'` from scratch. The equation holds as
an equation of results: if the from-scratch construction fails (no active validator), so does the rotation, with
the same error. -/
theorem rotate_eq_ctxOf {cfg : Config} {N : Nat} {st st' : State} {c : Ctx}
    (hc : ctxOf cfg st = .ok c)
    (hN : get_current_epoch cfg st = N) (hN' : get_current_epoch cfg st' = N + 1)
    (hw : EpochWrites cfg N st st')
    (hmin : 1 ≤ cfg.MIN_SEED_LOOKAHEAD) (hmax : 1 ≤ cfg.MAX_SEED_LOOKAHEAD)
    (hvec : cfg.MIN_SEED_LOOKAHEAD + 3 < cfg.EPOCHS_PER_HISTORICAL_VECTOR) (hfar : N + 1 < FAR_FUTURE_EPOCH)
    (hreg : st'.validators.map (·.pubkey) = st.validators.map (·.pubkey))
    (hsync : SyncStep cfg N st st') :
    rotate cfg c st' = ctxOf cfg st' :=
  rotate_eq_ctxOf_aux hc hN hN'
    (shuffling_stable hw hmin hmax hvec hfar N (by omega) (by omega))
    (shuffling_stable hw hmin hmax hvec hfar (N + 1) (by omega) (by omega)) hreg hsync

/-- **Fork upgrades.** An upgrade keeps slot, registry and randao mixes. The upgrade to altair creates the state's
sync committees, and `UpgradeMaybe` loads them into the context; every later upgrade keeps the state's sync
committees and leaves the context alone. Either way the updated context is the context of the upgraded state. -/
theorem afterUpgrade_eq_ctxOf {cfg : Config} {pre post : State} {c : Ctx}
    (hc : ctxOf cfg pre = .ok c)
    (hslot : post.slot = pre.slot) (hv : post.validators = pre.validators) (hm : post.randao_mixes = pre.randao_mixes)
    (hlater : post.fork ≠ Fork.altair →
      post.current_sync_committee = pre.current_sync_committee ∧ post.next_sync_committee = pre.next_sync_committee) :
    afterUpgrade c post = ctxOf cfg post := by
  unfold afterUpgrade
  by_cases hf : post.fork = Fork.altair
  · rw [if_pos hf]
    -- everything but the sync committees is read from fields the upgrade keeps
    have hpost := ctxOf_congr (cfg := cfg) (st' := post)
      (st := { pre with current_sync_committee := post.current_sync_committee, next_sync_committee := post.next_sync_committee })
      hslot hv hm rfl rfl
    rw [hpost, ctxOf_with_sync hc, hv]
  · rw [if_neg hf]
    obtain ⟨e1, e2⟩ := hlater hf
    rw [ctxOf_congr (cfg := cfg) hslot hv hm e1 e2, hc]
    rfl

/-- non-vacuity: a state is related to itself (nothing written), for every epoch -/
example (cfg : Config) (N : Nat) (st : State) : EpochWrites cfg N st st where
  len := Nat.le_refl _
  act := fun _ _ _ h1 h2 => .inl (by rw [h1] at h2; cases h2; rfl)
  exit := fun _ _ _ h1 h2 => .inl (by rw [h1] at h2; cases h2; rfl)
  fresh := fun i v' h1 h2 => by
    have h3 := List.getElem?_eq_none_iff.mpr h1
    rw [h3] at h2
    cases h2
  mixesLen := rfl
  mixes := fun _ _ _ => rfl

end Zrnt.Proofs.C08
