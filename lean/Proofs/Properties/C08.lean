import Proofs.Lemmas.Ctx
import Proofs.Properties.C07
import Proofs.Lemmas.C02Committee
/-!
# C08 — the incrementally maintained epochs context always matches the state

`Zrnt.Beacon.Ctx.ctxOf` is the context computed from scratch from a state with the specification's
functions; `rotate`, `afterDeposit`, `afterUpgrade` model how zrnt maintains the live context. On every run
the real live `EpochsContext` along generated chains (all forks) is compared with the real
`NewEpochsContext(spec, state)` and with `ctxOf` of the same state (`zmodel c08`), and the reload experiment
is run. The theorems explain *why* the incremental path agrees with the from-scratch path.
-/
namespace Zrnt.Proofs.C08
open Zrnt.Beacon Zrnt.Beacon.Spec Zrnt.Beacon.Ctx Zrnt.Proofs.Ctx

/-- **Look-ahead stability.** With `MIN_SEED_LOOKAHEAD ≥ 1` and `MAX_SEED_LOOKAHEAD ≥ 1`, nothing that a block or
the epoch transition of epoch `N` is allowed to write (`EpochWrites`: activation/exit epochs move only from
`FAR_FUTURE_EPOCH` to `≥ N + 1 + MAX_SEED_LOOKAHEAD`, deposits add inactive validators, only the randao mixes
`N` and `N + 1` are written) changes the active set or any seed of epoch `N + 1` — nor those of the epochs `N` and
`N − 1`, which the context also holds. Hence a shuffling computed one epoch early is the one computed from
scratch later. -/
theorem lookahead_stable {cfg : Config} {N : Nat} {st st' : State} (hw : EpochWrites cfg N st st')
    (hmin : 1 ≤ cfg.MIN_SEED_LOOKAHEAD) (hmax : 1 ≤ cfg.MAX_SEED_LOOKAHEAD)
    (hvec : cfg.MIN_SEED_LOOKAHEAD + 3 < cfg.EPOCHS_PER_HISTORICAL_VECTOR) (hfar : N + 1 < FAR_FUTURE_EPOCH)
    (e : Nat) (he : e ≤ N + 1) (he' : N ≤ e + 1) :
    get_active_validator_indices st' e = get_active_validator_indices st e ∧
    ∀ domain_type, get_seed cfg st' e domain_type = get_seed cfg st e domain_type :=
  ⟨active_stable hw e he hmax hfar, fun d => seed_stable hw e d he he' hmin hvec⟩

/-- consequently the whole shuffling (active indices, shuffled list, committees) of the epochs `N − 1 … N + 1` -/
theorem shuffling_stable {cfg : Config} {N : Nat} {st st' : State} (hw : EpochWrites cfg N st st')
    (hmin : 1 ≤ cfg.MIN_SEED_LOOKAHEAD) (hmax : 1 ≤ cfg.MAX_SEED_LOOKAHEAD)
    (hvec : cfg.MIN_SEED_LOOKAHEAD + 3 < cfg.EPOCHS_PER_HISTORICAL_VECTOR) (hfar : N + 1 < FAR_FUTURE_EPOCH)
    (e : Nat) (he : e ≤ N + 1) (he' : N ≤ e + 1) :
    shufflingOf cfg st' e = shufflingOf cfg st e := by
  obtain ⟨ha, hs⟩ := lookahead_stable hw hmin hmax hvec hfar e he he'
  unfold shufflingOf
  rw [ha, hs]

/-- **Rotation = from scratch.** Let `c` be the context of a state `st` of epoch `N` (any point of the epoch: by
`chain_ctx_invariant` the live context is `ctxOf` of the current state), and `st'` the state right after the epoch
transition (first slot of epoch `N + 1`, before any block). If the transition wrote only what an epoch may write
(`EpochWrites`), added no validator (`hreg`: deposits happen in blocks and are covered by `afterDeposit_eq_ctxOf`) and
moved the sync committees as `process_sync_committee_updates` does (`SyncStep`: at a period boundary next becomes
current), then what `RotateEpochs` computes — shift two shufflings, compute only the next one, recompute proposers,
stake and (at a period boundary) sync committees — **is** the context of `st'` from scratch. The equation holds as
an equation of results: if the from-scratch construction fails (no active validator), so does the rotation, with
the same error. -/
theorem rotate_eq_ctxOf {cfg : Config} {N : Nat} {st st' : State} {c : Ctx}
    (hc : ctxOf cfg st = .ok c)
    (hN : get_current_epoch cfg st = N) (hN' : get_current_epoch cfg st' = N + 1)
    (hw : EpochWrites cfg N st st')
    (hmin : 1 ≤ cfg.MIN_SEED_LOOKAHEAD) (hmax : 1 ≤ cfg.MAX_SEED_LOOKAHEAD)
    (hvec : cfg.MIN_SEED_LOOKAHEAD + 3 < cfg.EPOCHS_PER_HISTORICAL_VECTOR) (hfar : N + 1 < FAR_FUTURE_EPOCH)
    (hreg : st'.validators.map (·.pubkey) = st.validators.map (·.pubkey))
    (hsync : SyncStep cfg N st st') :
    rotate cfg c st' = ctxOf cfg st' :=
  rotate_eq_ctxOf_aux hc hN hN'
    (shuffling_stable hw hmin hmax hvec hfar N (by omega) (by omega))
    (shuffling_stable hw hmin hmax hvec hfar (N + 1) (by omega) (by omega)) hreg hsync

/-- **Fork upgrades.** An upgrade keeps slot, registry and randao mixes. The upgrade to altair creates the state's
sync committees, and `UpgradeMaybe` loads them into the context; every later upgrade keeps the state's sync
committees and leaves the context alone. Either way the updated context is the context of the upgraded state. -/
theorem afterUpgrade_eq_ctxOf {cfg : Config} {pre post : State} {c : Ctx}
    (hc : ctxOf cfg pre = .ok c)
    (hslot : post.slot = pre.slot) (hv : post.validators = pre.validators) (hm : post.randao_mixes = pre.randao_mixes)
    (hlater : post.fork ≠ Fork.altair →
      post.current_sync_committee = pre.current_sync_committee ∧ post.next_sync_committee = pre.next_sync_committee) :
    afterUpgrade c post = ctxOf cfg post := by
  unfold afterUpgrade
  by_cases hf : post.fork = Fork.altair
  · rw [if_pos hf]
    -- everything but the sync committees is read from fields the upgrade keeps
    have hpost := ctxOf_congr (cfg := cfg) (st' := post)
      (st := { pre with current_sync_committee := post.current_sync_committee, next_sync_committee := post.next_sync_committee })
      hslot hv hm rfl rfl
    rw [hpost, ctxOf_with_sync hc, hv]
  · rw [if_neg hf]
    obtain ⟨e1, e2⟩ := hlater hf
    rw [ctxOf_congr (cfg := cfg) hslot hv hm e1 e2, hc]
    rfl

/-- **Steps inside an epoch, deposits included.** Slot processing without an epoch transition, or a block with any
operations: the existing validators keep their pubkeys and effective balances (effective balances change only in
the epoch transition), deposits with new pubkeys append the validators `news`, everything else written is within
`EpochWrites`, the state's sync committees are untouched. Then the context of the new state is the old context with
`afterDeposit` (pubkey cache and effective-balance cache grow) applied for each new validator — in particular
unchanged when no validator is added. -/
theorem block_eq_ctxOf {cfg : Config} {N : Nat} {st st1 : State} {c : Ctx} (old news : List Validator)
    (hc : ctxOf cfg st = .ok c)
    (hN : get_current_epoch cfg st = N) (hN1 : get_current_epoch cfg st1 = N)
    (hw : EpochWrites cfg N st st1)
    (hmin : 1 ≤ cfg.MIN_SEED_LOOKAHEAD) (hmax : 1 ≤ cfg.MAX_SEED_LOOKAHEAD)
    (hvec : cfg.MIN_SEED_LOOKAHEAD + 3 < cfg.EPOCHS_PER_HISTORICAL_VECTOR) (hfar : N + 1 < FAR_FUTURE_EPOCH)
    (hvals : st1.validators = old ++ news)
    (hpk : old.map (·.pubkey) = st.validators.map (·.pubkey))
    (heff : old.map (·.effective_balance) = st.validators.map (·.effective_balance))
    (hsc : st1.current_sync_committee = st.current_sync_committee)
    (hsn : st1.next_sync_committee = st.next_sync_committee) :
    ctxOf cfg st1 = .ok (news.foldl afterDeposit c) :=
  block_eq_ctxOf_aux old news hc hN hN1 hw hmin hmax hvec hfar hvals hpk heff hsc hsn

/-- the single-deposit case: a deposit that adds validator `v` -/
theorem afterDeposit_eq_ctxOf {cfg : Config} {N : Nat} {st st1 : State} {c : Ctx} (v : Validator)
    (hc : ctxOf cfg st = .ok c)
    (hN : get_current_epoch cfg st = N) (hN1 : get_current_epoch cfg st1 = N)
    (hw : EpochWrites cfg N st st1)
    (hmin : 1 ≤ cfg.MIN_SEED_LOOKAHEAD) (hmax : 1 ≤ cfg.MAX_SEED_LOOKAHEAD)
    (hvec : cfg.MIN_SEED_LOOKAHEAD + 3 < cfg.EPOCHS_PER_HISTORICAL_VECTOR) (hfar : N + 1 < FAR_FUTURE_EPOCH)
    (hvals : st1.validators = st.validators ++ [v])
    (hsc : st1.current_sync_committee = st.current_sync_committee)
    (hsn : st1.next_sync_committee = st.next_sync_committee) :
    ctxOf cfg st1 = .ok (afterDeposit c v) :=
  block_eq_ctxOf st.validators [v] hc hN hN1 hw hmin hmax hvec hfar hvals rfl rfl hsc hsn

/-- **The hypotheses are checked on every observed step.** `zmodel c08` evaluates `epochWritesB` (and `inEpochHypsB` /
`boundaryHypsB`) between consecutive states of every generated chain and reports a step on which they fail. These
checks are sound: when they pass, the assumptions of the step theorems hold, so the step theorems apply to that step. -/
theorem epochWritesB_sound {cfg : Config} {N : Nat} {st st' : State} (h : epochWritesB cfg N st st' = true) :
    EpochWrites cfg N st st' := epochWritesB_sound' h

/-- a checked step inside an epoch: the new context is the old one plus `afterDeposit` for the appended validators -/
theorem checked_step_inEpoch {cfg : Config} {N : Nat} {st st' : State} {c : Ctx}
    (hc : ctxOf cfg st = .ok c) (hN : get_current_epoch cfg st = N) (hN' : get_current_epoch cfg st' = N)
    (hw : epochWritesB cfg N st st' = true) (hh : inEpochHypsB st st' = true)
    (hmin : 1 ≤ cfg.MIN_SEED_LOOKAHEAD) (hmax : 1 ≤ cfg.MAX_SEED_LOOKAHEAD)
    (hvec : cfg.MIN_SEED_LOOKAHEAD + 3 < cfg.EPOCHS_PER_HISTORICAL_VECTOR) (hfar : N + 1 < FAR_FUTURE_EPOCH) :
    ctxOf cfg st' = .ok ((st'.validators.drop st.validators.length).foldl afterDeposit c) := by
  obtain ⟨h1, h2, h3, h4, h5⟩ := inEpochHypsB_sound hh
  exact block_eq_ctxOf _ _ hc hN hN' (epochWritesB_sound hw) hmin hmax hvec hfar h1 h2 h3 h4 h5

/-- a checked epoch boundary: rotating the old context gives the context of the new state -/
theorem checked_step_boundary {cfg : Config} {N : Nat} {st st' : State} {c : Ctx}
    (hc : ctxOf cfg st = .ok c) (hN : get_current_epoch cfg st = N) (hN' : get_current_epoch cfg st' = N + 1)
    (hw : epochWritesB cfg N st st' = true) (hh : boundaryHypsB cfg N st st' = true)
    (hmin : 1 ≤ cfg.MIN_SEED_LOOKAHEAD) (hmax : 1 ≤ cfg.MAX_SEED_LOOKAHEAD)
    (hvec : cfg.MIN_SEED_LOOKAHEAD + 3 < cfg.EPOCHS_PER_HISTORICAL_VECTOR) (hfar : N + 1 < FAR_FUTURE_EPOCH) :
    rotate cfg c st' = ctxOf cfg st' := by
  obtain ⟨h1, h2⟩ := boundaryHypsB_sound hh
  exact rotate_eq_ctxOf hc hN hN' (epochWritesB_sound hw) hmin hmax hvec hfar h1 h2

/-- The (state, live context) pairs a chain can reach: a context made from scratch (genesis, or a reload), then any
sequence of steps inside an epoch (blocks with deposits), epoch boundaries (`rotate`) and fork upgrades
(`afterUpgrade`), each under the hypotheses of the corresponding step theorem. -/
inductive Reach (cfg : Config) : State → Ctx → Prop where
  | fresh {st c} : ctxOf cfg st = .ok c → Reach cfg st c
  | inEpoch {N st st1 c} (old news : List Validator) : Reach cfg st c →
      get_current_epoch cfg st = N → get_current_epoch cfg st1 = N → EpochWrites cfg N st st1 →
      1 ≤ cfg.MIN_SEED_LOOKAHEAD → 1 ≤ cfg.MAX_SEED_LOOKAHEAD →
      cfg.MIN_SEED_LOOKAHEAD + 3 < cfg.EPOCHS_PER_HISTORICAL_VECTOR → N + 1 < FAR_FUTURE_EPOCH →
      st1.validators = old ++ news → old.map (·.pubkey) = st.validators.map (·.pubkey) →
      old.map (·.effective_balance) = st.validators.map (·.effective_balance) →
      st1.current_sync_committee = st.current_sync_committee → st1.next_sync_committee = st.next_sync_committee →
      Reach cfg st1 (news.foldl afterDeposit c)
  | boundary {N st st' c c'} : Reach cfg st c →
      get_current_epoch cfg st = N → get_current_epoch cfg st' = N + 1 → EpochWrites cfg N st st' →
      1 ≤ cfg.MIN_SEED_LOOKAHEAD → 1 ≤ cfg.MAX_SEED_LOOKAHEAD →
      cfg.MIN_SEED_LOOKAHEAD + 3 < cfg.EPOCHS_PER_HISTORICAL_VECTOR → N + 1 < FAR_FUTURE_EPOCH →
      st'.validators.map (·.pubkey) = st.validators.map (·.pubkey) → SyncStep cfg N st st' →
      rotate cfg c st' = .ok c' → Reach cfg st' c'
  | upgrade {pre post c c'} : Reach cfg pre c →
      post.slot = pre.slot → post.validators = pre.validators → post.randao_mixes = pre.randao_mixes →
      (post.fork ≠ Fork.altair →
        post.current_sync_committee = pre.current_sync_committee ∧ post.next_sync_committee = pre.next_sync_committee) →
      afterUpgrade c post = .ok c' → Reach cfg post c'

/-- **Chain invariant.** Along every chain — after each slot, block, deposit, epoch boundary and fork upgrade —
the incrementally maintained context is the context computed from scratch from the current state. -/
theorem chain_ctx_invariant {cfg : Config} {st : State} {c : Ctx} (h : Reach cfg st c) : ctxOf cfg st = .ok c := by
  induction h with
  | fresh h => exact h
  | inEpoch old news _ hN hN1 hw hmin hmax hvec hfar hvals hpk heff hsc hsn ih =>
    exact block_eq_ctxOf old news ih hN hN1 hw hmin hmax hvec hfar hvals hpk heff hsc hsn
  | boundary _ hN hN' hw hmin hmax hvec hfar hreg hsync hrot ih =>
    rw [← rotate_eq_ctxOf ih hN hN' hw hmin hmax hvec hfar hreg hsync]; exact hrot
  | upgrade _ hslot hv hm hlater hup ih =>
    rw [← afterUpgrade_eq_ctxOf ih hslot hv hm hlater]; exact hup

/-- **Reload equivalence.** Whatever is computed from a state and its context (`F`: the next transition, an
assignment lookup, …) gives the same result on the long-lived pair and on the pair obtained by serializing the
state, decoding it again and building a fresh context — given that the codec round-trips (C04). -/
theorem reload_equiv {cfg : Config} {β : Type} (F : State → Ctx → β)
    (encode : State → Bytes) (decode : Bytes → Option State) (hround : ∀ s, decode (encode s) = some s)
    {st : State} {c : Ctx} (h : Reach cfg st c)
    {st2 : State} {c2 : Ctx} (hd : decode (encode st) = some st2) (hc2 : ctxOf cfg st2 = .ok c2) :
    F st2 c2 = F st c := by
  rw [hround] at hd
  cases hd
  have := chain_ctx_invariant h
  rw [this] at hc2
  cases hc2
  rfl

/-- **Reads stay in range.** Every validator index the context holds — in its three active lists, its three
shuffled lists, every committee of the three epochs, and the proposer list — is below the length the registry (and
hence the `EffectiveBalances` slice) had at the last rotation (`st0`: the state right after the last rotation, `st`:
any later state of the same epoch `N`, related by `EpochWrites`): validators added since then are not in any of
the three active sets, and shufflings, committees and proposers only hold members of the active sets. So the
transition never reads the per-validator caches of the context beyond the length they had at the last rotation
(which is why the pre-fix `EffectiveBalances` defect could not change transition results). -/
theorem ctx_reads_in_range {cfg : Config} {N : Nat} {st0 st : State} {c : Ctx}
    (hc : ctxOf cfg st = .ok c) (hN : get_current_epoch cfg st = N) (hw : EpochWrites cfg N st0 st)
    (hmax : 1 ≤ cfg.MAX_SEED_LOOKAHEAD) (hfar : N + 1 < FAR_FUTURE_EPOCH) :
    (∀ sh ∈ [c.prev, c.cur, c.next],
      (∀ i ∈ sh.active, i < st0.validators.length) ∧ (∀ i ∈ sh.shuffling, i < st0.validators.length) ∧
      (∀ slot ∈ sh.committees, ∀ committee ∈ slot, ∀ i ∈ committee, i < st0.validators.length)) ∧
    (∀ i ∈ c.proposers.proposers, i < st0.validators.length) := by
  obtain ⟨h1, h2, h3, h4, _⟩ := ctxOf_ok hc
  have key : ∀ e, e ≤ N + 1 → ∀ i ∈ get_active_validator_indices st e, i < st0.validators.length := by
    intro e he i hi
    rw [active_stable hw e he hmax hfar] at hi
    exact active_lt hi
  have hP : get_previous_epoch cfg st ≤ N + 1 := by
    unfold get_previous_epoch; rw [hN]; dsimp only [GENESIS_EPOCH]; by_cases h0 : N = 0 <;> simp [h0] <;> omega
  rw [hN] at h1 h3 h4
  have one : ∀ {e : Nat} {sh : ShufflingEpoch}, e ≤ N + 1 → shufflingOf cfg st e = .ok sh →
      (∀ i ∈ sh.active, i < st0.validators.length) ∧ (∀ i ∈ sh.shuffling, i < st0.validators.length) ∧
      (∀ slot ∈ sh.committees, ∀ committee ∈ slot, ∀ i ∈ committee, i < st0.validators.length) := by
    intro e sh he hsh
    have ha := (shufflingOf_fields hsh).2
    obtain ⟨m1, m2⟩ := shufflingOf_mem hsh
    refine ⟨?_, ?_, ?_⟩
    · rw [ha]; exact key e he
    · intro i hi; exact key e he i (m1 i hi)
    · intro slot hs committee hcm i hi; exact key e he i (m2 slot hs committee hcm i hi)
  refine ⟨?_, ?_⟩
  · intro sh hsh
    simp only [List.mem_cons, List.mem_nil_iff, or_false] at hsh
    rcases hsh with rfl | rfl | rfl
    · exact one hP h2
    · exact one (by omega) h1
    · exact one (by omega) h3
  · intro i hi
    have := proposersOf_mem h4 i hi
    rw [(shufflingOf_fields h1).2] at this
    exact key _ (by omega) i this

/-! ## Composition with C07: the context's answers are the specification's answers for the state -/

/-- **The context of a state answers with the specification's committees and proposers.** Every committee held by
`ctxOf cfg st` for a slot of the previous, current or next epoch is `get_beacon_committee(state, slot, index)`, and
every proposer it holds for a slot of the current epoch is `get_beacon_proposer_index` at that slot — the literal
functions of `Zrnt.Beacon.Committees.Spec`, C07's oracle, evaluated on the state's registry and randao mixes.
Together with `chain_ctx_invariant` (live context = `ctxOf` of the current state) this says: the answers of the live
context along a chain are the specification's answers for the current state. -/
theorem ctx_answers_eq_spec {cfg : Config} {st : State} {c : Ctx} (hspe : 0 < cfg.SLOTS_PER_EPOCH)
    (hc : ctxOf cfg st = .ok c) :
    (∀ sh ∈ [c.prev, c.cur, c.next], ∀ s index, s < cfg.SLOTS_PER_EPOCH →
      index < Committees.Spec.get_committee_count_per_slot (cfgC cfg) (valsC st) sh.epoch →
      ∃ committee, sh.committees[s]?.bind (·[index]?) = some committee ∧
        Committees.Spec.get_beacon_committee Spec.hash (cfgC cfg) (valsC st) (mixesC st)
          (sh.epoch * cfg.SLOTS_PER_EPOCH + s) index = .ok committee) ∧
    (∀ s, s < cfg.SLOTS_PER_EPOCH → ∃ r, c.proposers.proposers[s]? = some r ∧
      Committees.Spec.get_beacon_proposer_index Spec.hash (cfgC cfg) (valsC st) (mixesC st)
        (get_current_epoch cfg st * cfg.SLOTS_PER_EPOCH + s) 32000 = .ok r) := by
  obtain ⟨h1, h2, h3, h4, _⟩ := ctxOf_ok hc
  refine ⟨?_, ?_⟩
  · intro sh hsh s index hs hi
    simp only [List.mem_cons, List.mem_nil_iff, or_false] at hsh
    rcases hsh with rfl | rfl | rfl
    · rw [(shufflingOf_fields h2).1] at hi ⊢
      exact shufflingOf_committee_eq_spec hspe h2 s index hs hi
    · rw [(shufflingOf_fields h1).1] at hi ⊢
      exact shufflingOf_committee_eq_spec hspe h1 s index hs hi
    · rw [(shufflingOf_fields h3).1] at hi ⊢
      exact shufflingOf_committee_eq_spec hspe h3 s index hs hi
  · intro s hs
    rw [(shufflingOf_fields h1).2] at h4
    exact proposersOf_eq_spec hspe h4 s hs

open Zrnt.Proofs.Committees in
/-- **C08 ∘ C07.** Take any context `c` with `ctxOf cfg st = .ok c` (by `chain_ctx_invariant`: the live context at any
point of a chain) and C07's code-shaped model `cM` of zrnt's `NewEpochsContext` on the same registry, mixes and slot.
Then zrnt's lookups on `cM` — `GetBeaconCommittee` for every slot of the previous, current and next epoch and every
committee index, `GetBeaconProposer` for every slot of the current epoch — return exactly what `c` holds. Hence
what the incrementally maintained context answers is what a from-scratch zrnt context answers, and both are the
specification's `get_beacon_committee` / `get_beacon_proposer_index` (`ctx_answers_eq_spec`, C07
`ctx_committee_eq_spec`, `ctx_proposer_eq_spec_partial`). The hypothesis of C06/C07 that the hash returns 32 bytes is
discharged for the SHA-256 transcription by `spec_hash_size`. -/
theorem live_ctx_answers_eq_zrnt_ctx {cfg : Config} {st : State} {c : Ctx}
    (ok : CfgOK (cfgC cfg)) (hsrc : cfg.SHUFFLE_ROUND_COUNT ≤ 255)
    (hmaxc : 0 < cfg.MAX_COMMITTEES_PER_SLOT) (hv : st.validators.length ≤ 2 ^ 40)
    (hc : ctxOf cfg st = .ok c)
    (cM : Committees.Ctx)
    (hM : Committees.newEpochsContext Spec.hash (cfgC cfg) (valsC st).toArray (mixesC st) st.slot = .ok cM) :
    (∀ sh ∈ [c.prev, c.cur, c.next], ∀ s index, s < cfg.SLOTS_PER_EPOCH →
      index < Committees.Spec.get_committee_count_per_slot (cfgC cfg) (valsC st) sh.epoch →
      ∃ committee, sh.committees[s]?.bind (·[index]?) = some committee ∧
        cM.getBeaconCommittee (cfgC cfg) (sh.epoch * cfg.SLOTS_PER_EPOCH + s) index = .ok committee) ∧
    (∀ s, s < cfg.SLOTS_PER_EPOCH → ∃ r, c.proposers.proposers[s]? = some r ∧
      cM.getBeaconProposer (cfgC cfg) (get_current_epoch cfg st * cfg.SLOTS_PER_EPOCH + s) = .ok r) := by
  have hH : ∀ x, (Spec.hash x).size = 32 := Zrnt.Proofs.Lemmas.spec_hash_size
  have hspe : 0 < cfg.SLOTS_PER_EPOCH := ok.spe_pos
  obtain ⟨hcomm, hprop⟩ := ctx_answers_eq_spec hspe hc
  obtain ⟨h1, h2, h3, _⟩ := ctxOf_ok hc
  have hsz : (valsC st).toArray.size ≤ 2 ^ 40 := by simp [valsC, hv]
  have hcur : get_current_epoch cfg st = st.slot / (cfgC cfg).SLOTS_PER_EPOCH := rfl
  refine ⟨?_, ?_⟩
  · intro sh hsh s index hs hi
    obtain ⟨committee, hget, hspec⟩ := hcomm sh hsh s index hs hi
    refine ⟨committee, hget, ?_⟩
    have hep : sh.epoch = st.slot / (cfgC cfg).SLOTS_PER_EPOCH - 1 ∨ sh.epoch = st.slot / (cfgC cfg).SLOTS_PER_EPOCH ∨
        sh.epoch = st.slot / (cfgC cfg).SLOTS_PER_EPOCH + 1 := by
      simp only [List.mem_cons, List.mem_nil_iff, or_false] at hsh
      rcases hsh with rfl | rfl | rfl
      · left
        rw [(shufflingOf_fields h2).1, ← hcur]
        unfold get_previous_epoch
        dsimp only [GENESIS_EPOCH]
        by_cases h0 : get_current_epoch cfg st = 0 <;> simp [h0]
      · right; left; rw [(shufflingOf_fields h1).1, hcur]
      · right; right; rw [(shufflingOf_fields h3).1, hcur]
    have := Zrnt.Proofs.C07.ctx_committee_eq_spec hH ok hsrc hmaxc (valsC st).toArray (mixesC st) st.slot hsz cM hM
      sh.epoch hep s index hs (by simpa using hi)
    rw [show (cfgC cfg).SLOTS_PER_EPOCH = cfg.SLOTS_PER_EPOCH from rfl] at this
    rw [this]
    simpa using hspec
  · intro s hs
    obtain ⟨r, hget, hspec⟩ := hprop s hs
    refine ⟨r, hget, ?_⟩
    obtain ⟨p, hp, hps⟩ := Zrnt.Proofs.C07.ctx_proposer_eq_spec_partial hH ok hsrc (valsC st).toArray (mixesC st) st.slot hsz cM hM
      s hs 0
    rw [show (cfgC cfg).SLOTS_PER_EPOCH = cfg.SLOTS_PER_EPOCH from rfl] at hp hps
    rw [hcur, show (cfgC cfg).SLOTS_PER_EPOCH = cfg.SLOTS_PER_EPOCH from rfl] at hspec
    simp only [Nat.add_zero, List.toList_toArray] at hps
    rw [hps] at hspec
    cases hspec
    rw [hcur, show (cfgC cfg).SLOTS_PER_EPOCH = cfg.SLOTS_PER_EPOCH from rfl]
    exact hp

open Zrnt.Proofs.Committees in
/-- **The sync-committee part, composed with C07.** Let `st0` be the state at which a sync committee was computed
(the altair upgrade or a period boundary) with an active validator of maximal effective balance in the committee's
base epoch. Then (C07 `syncIndices_eq_spec`) zrnt's `ComputeSyncCommitteeIndices` model and the specification's
`get_next_sync_committee_indices` return the same `SYNC_COMMITTEE_SIZE` indices `l`; and for every later state `st`
that stores the pubkeys of those validators as one of its sync committees (registry without repeated pubkeys, `l`
within the registry), the context of `st` — by `chain_ctx_invariant` the live context — holds exactly the indices `l`
for that committee: the pubkey → index hydration of `LoadSyncCommittees` / `RotateEpochs` inverts the index → pubkey
step of `get_next_sync_committee`. -/
theorem ctx_sync_indices_eq_spec {cfg : Config} {st0 st : State} {c : Ctx}
    (hsrc : cfg.SHUFFLE_ROUND_COUNT ≤ 255) (hv0 : st0.validators.length ≤ 2 ^ 40)
    (hne : 0 < (Committees.activeIndices (valsC st0).toArray (st0.slot / (cfgC cfg).SLOTS_PER_EPOCH + 1)).size)
    (hm : HasMaxBalance (cfgC cfg) (valsC st0).toArray
      (Committees.activeIndices (valsC st0).toArray (st0.slot / (cfgC cfg).SLOTS_PER_EPOCH + 1)))
    (fuel : Nat)
    (hf : (cfgC cfg).SYNC_COMMITTEE_SIZE *
      (Committees.activeIndices (valsC st0).toArray (st0.slot / (cfgC cfg).SLOTS_PER_EPOCH + 1)).size + 1 ≤ fuel)
    (hc : ctxOf cfg st = .ok c) (hnd : (st.validators.map (·.pubkey)).Nodup) :
    ∃ l, Committees.Spec.get_next_sync_committee_indices Spec.hash (cfgC cfg) (valsC st0) (mixesC st0) st0.slot fuel = .ok l ∧
      l.length = cfg.SYNC_COMMITTEE_SIZE ∧
      Committees.computeSyncCommitteeIndices Spec.hash (cfgC cfg) (valsC st0).toArray (mixesC st0) st0.slot
        (st0.slot / (cfgC cfg).SLOTS_PER_EPOCH + 1)
        (Committees.activeIndices (valsC st0).toArray (st0.slot / (cfgC cfg).SLOTS_PER_EPOCH + 1)) fuel = .ok l.toArray ∧
      ((∀ i ∈ l, i < st.validators.length) → ∀ sc : SyncCommittee,
        sc.pubkeys = l.map (fun i => (st.validators.getD i default).pubkey) →
        (st.current_sync_committee = some sc → c.syncCurrent = some ⟨l, sc.pubkeys⟩) ∧
        (st.next_sync_committee = some sc → c.syncNext = some ⟨l, sc.pubkeys⟩)) := by
  have hsz : (valsC st0).toArray.size ≤ 2 ^ 40 := by simp [valsC, hv0]
  have sok := sampleOK_active (H := Spec.hash) Zrnt.Proofs.Lemmas.spec_hash_size (cfg := cfgC cfg) hsrc (valsC st0).toArray hsz _ hne
  obtain ⟨l, hs, hlen, hcode⟩ := Zrnt.Proofs.C07.syncIndices_eq_spec (mixesC st0) st0.slot sok hm fuel hf
  refine ⟨l, by simpa using hs, hlen, hcode, ?_⟩
  intro hl sc hpk
  obtain ⟨_, _, _, _, h5, h6, _⟩ := ctxOf_ok hc
  have hyd := syncOfOpt_of_indices hnd l hl sc hpk
  constructor
  · intro hcur
    rw [hcur, hyd] at h5
    exact (Except.ok.inj h5).symm
  · intro hnext
    rw [hnext, hyd] at h6
    exact (Except.ok.inj h6).symm

/-- non-vacuity: a state is related to itself (nothing written), for every epoch -/
example (cfg : Config) (N : Nat) (st : State) : EpochWrites cfg N st st where
  len := Nat.le_refl _
  act := fun _ _ _ h1 h2 => .inl (by rw [h1] at h2; cases h2; rfl)
  exit := fun _ _ _ h1 h2 => .inl (by rw [h1] at h2; cases h2; rfl)
  fresh := fun i v' h1 h2 => by
    have h3 := List.getElem?_eq_none_iff.mpr h1
    rw [h3] at h2
    cases h2
  mixesLen := rfl
  mixes := fun _ _ _ => rfl

/-- non-vacuity of the rotation step: advancing only the slot counter (an epoch transition that changes nothing
else, on a state without sync committees) satisfies `EpochWrites`, `SyncStep` and the registry hypothesis together -/
example (cfg : Config) (N : Nat) (st : State) (slot' : Nat)
    (h1 : st.current_sync_committee = none) (h2 : st.next_sync_committee = none) :
    EpochWrites cfg N st { st with slot := slot' } ∧ SyncStep cfg N st { st with slot := slot' } ∧
    ({ st with slot := slot' } : State).validators.map (·.pubkey) = st.validators.map (·.pubkey) :=
  ⟨{ len := Nat.le_refl _
     act := fun _ _ _ h1 h2 => .inl (by simp only at h2; rw [h1] at h2; cases h2; rfl)
     exit := fun _ _ _ h1 h2 => .inl (by simp only at h2; rw [h1] at h2; cases h2; rfl)
     fresh := fun i v' h1 h2 => by
       simp only at h2
       rw [List.getElem?_eq_none_iff.mpr h1] at h2
       cases h2
     mixesLen := rfl
     mixes := fun _ _ _ => rfl },
   { boundary := fun _ _ => by simp [h1, h2]
     inside := fun _ => ⟨rfl, rfl⟩ },
   rfl⟩

/-- non-vacuity of `Reach`: every state whose context can be built is reachable with that context -/
example (cfg : Config) (st : State) (c : Ctx) (h : ctxOf cfg st = .ok c) : Reach cfg st c := .fresh h

end Zrnt.Proofs.C08
