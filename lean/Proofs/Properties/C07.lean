import Proofs.Lemmas.Committees
import Proofs.Lemmas.CommitteesSampling
import Proofs.Lemmas.Sha256Size
/-!
# C07 — committee, proposer and sync-committee assignments equal the spec's

Theorems about the code-shaped model `Zrnt.Beacon.Committees` of
`eth2/beacon/common/{shuffling,proposers,sync_committee,randao,epochs_context}.go` (tie H: mode
`committees` runs the model and the literal spec functions against a real `EpochsContext` on every
check) and about `CommitteeCount` **as regenerated from the Go source on every run** (tie R-fun).
All theorems hold for every hash function `H` with 32-byte output, every registry, every randao
history, every configuration satisfying `CfgOK` (non-zero divisors, constants fit `uint64`).
Sizes: registries below `2^63` entries (slice lengths), active sets up to `2^40 = VALIDATOR_REGISTRY_LIMIT`
wherever the specification's shuffling function is involved (its own domain).
-/
namespace Zrnt.Proofs.C07
open Zrnt Zrnt.Shuffle Zrnt.Beacon.Committees Zrnt.Proofs.Committees

/-! ## committee count -/

/-- `CommitteeCount` (regenerated from shuffling.go) is `max(1, min(MAX_COMMITTEES_PER_SLOT, n / SLOTS_PER_EPOCH /
TARGET_COMMITTEE_SIZE))` — the specification's `get_committee_count_per_slot` — and does not panic, for every
64-bit `n` and every configuration with non-zero `SLOTS_PER_EPOCH`, `TARGET_COMMITTEE_SIZE`. -/
theorem committeeCount_spec (spec : Zrnt.Gen.GoFuns.Spec) (n : UInt64)
    (h1 : spec.SLOTS_PER_EPOCH ≠ 0) (h2 : spec.TARGET_COMMITTEE_SIZE ≠ 0) :
    ∃ c, Zrnt.Gen.GoFuns.CommitteeCount spec n = .ok c ∧
      c.toNat = max 1 (min spec.MAX_COMMITTEES_PER_SLOT.toNat
        (n.toNat / spec.SLOTS_PER_EPOCH.toNat / spec.TARGET_COMMITTEE_SIZE.toNat)) :=
  committeeCount_go spec n h1 h2

/-- the model's committee count for an epoch is the specification's `get_committee_count_per_slot` -/
theorem committeeCount_eq_spec {cfg : Cfg} (ok : CfgOK cfg) (vals : Array Val) (epoch : Nat) (hv : vals.size < 2 ^ 63) :
    committeeCount cfg (activeIndices vals epoch).size =
      .ok (Spec.get_committee_count_per_slot cfg vals.toList epoch) := by
  have hle := size_activeIndices_le vals epoch
  rw [committeeCount_model cfg _ ok.spe_pos ok.tcs_pos ok.spe_lt ok.tcs_lt ok.mcs_lt (by omega)]
  unfold Spec.get_committee_count_per_slot
  rw [← activeIndices_eq_spec, Array.length_toList]

/-! ## slicing: tile, sizes, partition -/

/-- boundary `i` of the slicing of `n` shuffled validators into `c` committees -/
def bound (n c i : Nat) : Nat := n * i / c

/-- **the committees tile the shuffled list**: committee `(slot, index)` is the slice
`[bound k, bound (k+1))` with `k = slot·cps + index`; the boundaries start at 0, end at `n`, never decrease
(so consecutive committees are adjacent and every slice is in range). -/
theorem committees_tile {H : ByteArray → ByteArray} {cfg : Cfg} (ok : CfgOK cfg) (vals : Array Val)
    (seed : ByteArray) (epoch : Nat) (hv : vals.size < 2 ^ 63) :
    ∃ se, newShufflingEpoch H cfg vals seed epoch = .ok se ∧
      let n := se.shuffling.size
      let cps := cpsOf cfg n
      let c := cps * cfg.SLOTS_PER_EPOCH
      se.committees.length = cfg.SLOTS_PER_EPOCH ∧
      (∀ (slot index : Nat), slot < cfg.SLOTS_PER_EPOCH → index < cps →
        (se.committees[slot]?.bind (·[index]?)) =
          some (se.shuffling.toList.extract (bound n c (slot * cps + index)) (bound n c (slot * cps + index + 1)))) ∧
      (∀ (slot : Nat) (l : List (List Nat)), se.committees[slot]? = some l → l.length = cps) ∧
      bound n c 0 = 0 ∧ bound n c c = n ∧ (∀ i, bound n c i ≤ bound n c (i + 1)) ∧ (∀ i, i ≤ c → bound n c i ≤ n) := by
  have hsz : (unshuffleList (Hasher.ofHash H seed) (rounds8 cfg) (activeIndices vals epoch)).size = (activeIndices vals epoch).size :=
    (Zrnt.Proofs.Shuffle.unshuffleList_spec _ _ _ (by have := size_activeIndices_le vals epoch; omega)).1
  refine ⟨_, newShufflingEpoch_ok ok vals seed epoch hv, ?_⟩
  simp only [hsz]
  have hc : 0 < cpsOf cfg (activeIndices vals epoch).size * cfg.SLOTS_PER_EPOCH :=
    Nat.mul_pos (cpsOf_pos _ _) ok.spe_pos
  refine ⟨by simp, ?_, ?_, slice_first _ _, slice_last _ _ hc, fun i => slice_mono _ _ i, fun i hi => slice_le _ _ i hc hi⟩
  · intro slot index hs hi
    simp [hs, hi, bound]
  · intro slot l hl
    simp only [List.getElem?_map] at hl
    cases hr : (List.range cfg.SLOTS_PER_EPOCH)[slot]? with
    | none => rw [hr] at hl; simp at hl
    | some s => rw [hr] at hl; simp at hl; rw [← hl]; simp

/-- every committee has `⌊n/c⌋` or `⌈n/c⌉` members (`c` = number of committees of the epoch) -/
theorem committee_sizes (n c i : Nat) (hc : 0 < c) :
    bound n c (i + 1) - bound n c i = n / c ∨ bound n c (i + 1) - bound n c i = n / c + 1 :=
  slice_size n c i hc

/-- **the committees of an epoch partition the active validator set**: concatenated in (slot, index) order
they are exactly the un-shuffled list, which is a permutation of the active indices, which are the
validators active in that epoch, each once. Hence every active validator sits in exactly one committee
position, and nobody else does. -/
theorem committees_partition {H : ByteArray → ByteArray} {cfg : Cfg} (ok : CfgOK cfg) (vals : Array Val)
    (seed : ByteArray) (epoch : Nat) (hv : vals.size < 2 ^ 63) :
    ∃ se, newShufflingEpoch H cfg vals seed epoch = .ok se ∧
      se.committees.flatten.flatten = se.shuffling.toList ∧
      se.committees.flatten.flatten.Perm se.activeIndices.toList ∧
      se.activeIndices.toList.Nodup ∧
      (∀ i, i ∈ se.activeIndices.toList ↔ i < vals.size ∧ vals[i]!.activation ≤ epoch ∧ epoch < vals[i]!.exit) ∧
      (∀ i, i < vals.size → vals[i]!.activation ≤ epoch → epoch < vals[i]!.exit →
        se.committees.flatten.flatten.count i = 1) := by
  have hle := size_activeIndices_le vals epoch
  have hsz : (unshuffleList (Hasher.ofHash H seed) (rounds8 cfg) (activeIndices vals epoch)).size = (activeIndices vals epoch).size :=
    (Zrnt.Proofs.Shuffle.unshuffleList_spec _ _ _ (by omega)).1
  have hc : 0 < cpsOf cfg (activeIndices vals epoch).size * cfg.SLOTS_PER_EPOCH :=
    Nat.mul_pos (cpsOf_pos _ _) ok.spe_pos
  have hflat := committees_flatten (unshuffleList (Hasher.ofHash H seed) (rounds8 cfg) (activeIndices vals epoch)).toList
    cfg.SLOTS_PER_EPOCH (cpsOf cfg (activeIndices vals epoch).size) hc (activeIndices vals epoch).size
    (by rw [Array.length_toList, hsz])
  have hperm : (unshuffleList (Hasher.ofHash H seed) (rounds8 cfg) (activeIndices vals epoch)).toList.Perm
      (activeIndices vals epoch).toList := by
    obtain ⟨s, g⟩ := Zrnt.Proofs.Shuffle.unshuffleList_spec (Hasher.ofHash H seed) (rounds8 cfg) (activeIndices vals epoch) (by omega)
    have hn : (activeIndices vals epoch).size ≤ 2 ^ 63 := by omega
    exact Zrnt.Proofs.Shuffle.perm_of_index_bijection _ _ _ _ s
      (Zrnt.Proofs.Shuffle.permUp_lt hn _) (Zrnt.Proofs.Shuffle.permDown_lt hn _)
      (Zrnt.Proofs.Shuffle.permDown_permUp hn _) (Zrnt.Proofs.Shuffle.permUp_permDown hn _) g
  refine ⟨_, newShufflingEpoch_ok ok vals seed epoch hv, ?_⟩
  simp only []
  refine ⟨hflat, by rw [hflat]; exact hperm, activeIndices_nodup vals epoch, mem_activeIndices vals epoch, ?_⟩
  intro i h1 h2 h3
  rw [hflat, hperm.count_eq]
  exact List.count_eq_one_of_mem (activeIndices_nodup vals epoch) ((mem_activeIndices vals epoch i).mpr ⟨h1, h2, h3⟩)

/-! ## equality with the specification -/

/-- `GetSeed` = `get_seed` -/
theorem seed_eq_spec (H : ByteArray → ByteArray) (cfg : Cfg) (mixes : Nat → ByteArray) (epoch : Nat) (domainType : ByteArray) :
    getSeed H cfg mixes epoch domainType = Spec.get_seed H cfg mixes epoch domainType :=
  getSeed_eq_spec H cfg mixes epoch domainType

/-- the active indices the code collects are `get_active_validator_indices` -/
theorem activeIndices_eq_spec (vals : Array Val) (epoch : Nat) :
    (activeIndices vals epoch).toList = Spec.get_active_validator_indices vals.toList epoch :=
  Zrnt.Proofs.Committees.activeIndices_eq_spec vals epoch

/-- **every committee is the specification's**: the slice of the un-shuffled list stored for `(slot, index)` of
`epoch` by `ComputeShufflingEpoch` is `get_beacon_committee(state, epoch·SLOTS_PER_EPOCH + slot, index)` —
computed by the specification through `compute_shuffled_index` at each position. -/
theorem committee_eq_spec {H : ByteArray → ByteArray} (hH : ∀ x, (H x).size = 32) {cfg : Cfg} (ok : CfgOK cfg)
    (hsrc : cfg.SHUFFLE_ROUND_COUNT ≤ 255) (vals : Array Val) (mixes : Nat → ByteArray) (epoch : Nat)
    (hv : vals.size ≤ 2 ^ 40) (slot index : Nat) (hs : slot < cfg.SLOTS_PER_EPOCH)
    (hi : index < Spec.get_committee_count_per_slot cfg vals.toList epoch) :
    ∃ se m, computeShufflingEpoch H cfg vals mixes epoch = .ok se ∧
      (se.committees[slot]?.bind (·[index]?)) = some m ∧
      Spec.get_beacon_committee H cfg vals.toList mixes (epoch * cfg.SLOTS_PER_EPOCH + slot) index = .ok m := by
  have hle := size_activeIndices_le vals epoch
  have hcps : Spec.get_committee_count_per_slot cfg vals.toList epoch = cpsOf cfg (activeIndices vals epoch).size := by
    unfold Spec.get_committee_count_per_slot cpsOf
    rw [← Zrnt.Proofs.Committees.activeIndices_eq_spec, Array.length_toList]
  rw [hcps] at hi
  have hsz : (unshuffleList (Hasher.ofHash H (getSeed H cfg mixes epoch DOMAIN_BEACON_ATTESTER)) (rounds8 cfg)
      (activeIndices vals epoch)).size = (activeIndices vals epoch).size :=
    (Zrnt.Proofs.Shuffle.unshuffleList_spec _ _ _ (by omega)).1
  refine ⟨_, (unshuffleList (Hasher.ofHash H (getSeed H cfg mixes epoch DOMAIN_BEACON_ATTESTER)) (rounds8 cfg)
      (activeIndices vals epoch)).toList.extract
      ((activeIndices vals epoch).size * (slot * cpsOf cfg (activeIndices vals epoch).size + index) /
        (cpsOf cfg (activeIndices vals epoch).size * cfg.SLOTS_PER_EPOCH))
      ((activeIndices vals epoch).size * (slot * cpsOf cfg (activeIndices vals epoch).size + index + 1) /
        (cpsOf cfg (activeIndices vals epoch).size * cfg.SLOTS_PER_EPOCH)),
    newShufflingEpoch_ok ok vals _ epoch (by omega), ?_, ?_⟩
  · simp [hs, hi]
  · unfold Spec.get_beacon_committee
    have e1 : (epoch * cfg.SLOTS_PER_EPOCH + slot) / cfg.SLOTS_PER_EPOCH = epoch := by
      rw [Nat.mul_comm, Nat.mul_add_div ok.spe_pos, Nat.div_eq_of_lt hs, Nat.add_zero]
    have e2 : (epoch * cfg.SLOTS_PER_EPOCH + slot) % cfg.SLOTS_PER_EPOCH = slot := by
      rw [Nat.mul_comm, Nat.mul_add_mod, Nat.mod_eq_of_lt hs]
    simp only [e1, e2, hcps]
    rw [← Zrnt.Proofs.Committees.activeIndices_eq_spec, ← getSeed_eq_spec]
    have hidx : slot * cpsOf cfg (activeIndices vals epoch).size + index <
        cpsOf cfg (activeIndices vals epoch).size * cfg.SLOTS_PER_EPOCH := by
      calc slot * cpsOf cfg (activeIndices vals epoch).size + index
          < slot * cpsOf cfg (activeIndices vals epoch).size + cpsOf cfg (activeIndices vals epoch).size := by omega
        _ = (slot + 1) * cpsOf cfg (activeIndices vals epoch).size := by rw [Nat.add_mul, Nat.one_mul]
        _ ≤ cfg.SLOTS_PER_EPOCH * cpsOf cfg (activeIndices vals epoch).size := Nat.mul_le_mul_right _ hs
        _ = cpsOf cfg (activeIndices vals epoch).size * cfg.SLOTS_PER_EPOCH := Nat.mul_comm _ _
    rw [compute_committee_eq hH hsrc (activeIndices vals epoch) (by omega) _ _ _ hidx]

/-- `proposer_eq_spec` at full strength would say `ComputeProposerIndex = compute_proposer_index`. That is false
as stated: the implementation tries 1000 × 32 candidates and then returns an error, the specification's
`while True` has no bound. What holds (this theorem): **whenever the implementation returns a value it is the
specification's value** (the specification's loop, given at least 32 000 iterations, stops with the same index),
the implementation never panics, and **it fails only when none of the first 32 000 candidates is accepted**, in
which case the specification is still searching from candidate 32 000 on (the stated divergence; for it to
occur with `p` the acceptance probability it takes `(1−p)^32000`, e.g. all effective balances 0 gives
`(255/256)^32000 ≈ 10^−54`). -/
theorem proposer_eq_spec_partial {H cfg vals active} (ok : SampleOK H cfg vals active) (seed : ByteArray) (extraFuel : Nat) :
    (∃ c, computeProposerIndex H cfg vals active seed = .ok c ∧
      Spec.compute_proposer_index H cfg vals.toList active.toList seed (32000 + extraFuel) 0 = .ok c) ∨
    (computeProposerIndex H cfg vals active seed = .err ∧
      Spec.compute_proposer_index H cfg vals.toList active.toList seed (32000 + extraFuel) 0 =
        Spec.compute_proposer_index H cfg vals.toList active.toList seed extraFuel 32000) :=
  computeProposerIndex_spec ok seed extraFuel

/-- with no active validator both sides refuse -/
theorem proposer_empty (H : ByteArray → ByteArray) (cfg : Cfg) (vals : Array Val) (seed : ByteArray) (fuel : Nat) :
    computeProposerIndex H cfg vals #[] seed = .err ∧
      Spec.compute_proposer_index H cfg vals.toList [] seed (fuel + 1) 0 = .err := by
  constructor
  · rfl
  · rfl

/-- `ComputeSyncCommitteeIndices` for the next epoch is `get_next_sync_committee_indices`, iteration for
iteration: with the same number of loop iterations allowed on both sides the results are equal (values, errors,
and "not finished yet" alike). Both loops are unbounded in the original texts; that they terminate is not part
of this theorem (hence `_partial`): it depends on the hash producing an accepted candidate, which no theorem
about an arbitrary `H` can promise. -/
theorem syncIndices_eq_spec_partial {H cfg vals} (mixes : Nat → ByteArray) (slot : Nat)
    (ok : SampleOK H cfg vals (activeIndices vals (slot / cfg.SLOTS_PER_EPOCH + 1))) (fuel : Nat) :
    computeSyncCommitteeIndices H cfg vals mixes slot (slot / cfg.SLOTS_PER_EPOCH + 1)
        (activeIndices vals (slot / cfg.SLOTS_PER_EPOCH + 1)) fuel =
      toArr (Spec.get_next_sync_committee_indices H cfg vals.toList mixes slot fuel) := by
  have hn0 : ¬ (activeIndices vals (slot / cfg.SLOTS_PER_EPOCH + 1)).size = 0 := by have := ok.nonempty; omega
  unfold computeSyncCommitteeIndices Spec.get_next_sync_committee_indices
  simp only [hn0, if_false, Nat.lt_irrefl, gt_iff_lt]
  rw [syncLoop_spec ok _ fuel 0 _ #[] (by simp)]
  rw [← Zrnt.Proofs.Committees.activeIndices_eq_spec, ← getSeed_eq_spec]


/-- **the proposer stored for every slot of the epoch is the specification's** `get_beacon_proposer_index` of the
state at that slot (same registry and randao history): if `ComputeProposers` returns, then for each slot
`s` of the epoch its entry is the index the specification's loop stops at. (Partial for the reason given at
`proposer_eq_spec_partial`: `ComputeProposers` can refuse where the specification keeps searching.) -/
theorem proposers_eq_spec_partial {H cfg vals} (mixes : Nat → ByteArray) (epoch : Nat) (hspe : 0 < cfg.SLOTS_PER_EPOCH)
    (ok : SampleOK H cfg vals (activeIndices vals epoch)) (ps : List Nat)
    (h : computeProposers H cfg vals mixes epoch (activeIndices vals epoch) = .ok ps) (extraFuel : Nat) :
    ps.length = cfg.SLOTS_PER_EPOCH ∧
    ∀ s (_ : s < cfg.SLOTS_PER_EPOCH) (hp : s < ps.length),
      Spec.get_beacon_proposer_index H cfg vals.toList mixes (epoch * cfg.SLOTS_PER_EPOCH + s) (32000 + extraFuel) = .ok ps[s] := by
  have hn0 : ¬ (activeIndices vals epoch).size = 0 := by have := ok.nonempty; omega
  unfold computeProposers at h
  simp only [hn0, if_false] at h
  obtain ⟨hlen, hget⟩ := mapM_ok_getElem _ _ _ h
  rw [List.length_range] at hlen
  refine ⟨hlen, fun s hs hp => ?_⟩
  have := hget s (by simpa using hs) hp
  simp only [List.getElem_range] at this
  unfold Spec.get_beacon_proposer_index
  have e1 : (epoch * cfg.SLOTS_PER_EPOCH + s) / cfg.SLOTS_PER_EPOCH = epoch := by
    rw [Nat.mul_comm, Nat.mul_add_div hspe, Nat.div_eq_of_lt hs, Nat.add_zero]
  simp only [e1]
  rw [← Zrnt.Proofs.Committees.activeIndices_eq_spec, ← getSeed_eq_spec, uintToBytes8]
  rcases computeProposerIndex_spec ok (H (getSeed H cfg mixes epoch DOMAIN_BEACON_PROPOSER ++ putUint64 (epoch * cfg.SLOTS_PER_EPOCH + s))) extraFuel with
    ⟨c, hm, hsp⟩ | ⟨hm, _⟩
  · rw [hm] at this
    injection this with this
    rw [← this]; exact hsp
  · rw [hm] at this; cases this


/-! ## full strength under a balance hypothesis

`HasMaxBalance cfg vals active`: some active validator has `effective_balance ≥ MAX_EFFECTIVE_BALANCE` (true of every
live network: it is the normal balance). Such a validator is accepted whatever the random byte, and the shuffling
visits every active validator once in any `n` consecutive candidates — so both sampling loops terminate. -/

/-- **`ComputeProposerIndex` = `compute_proposer_index`** (no `_partial`): with an active validator at the maximum
effective balance and at most 32 000 active validators the implementation returns — the cut-off is not reached —
and its value is what the specification's loop stops at (given any fuel ≥ 32 000). For more than 32 000 active
validators the cut-off divergence of `proposer_eq_spec_partial` remains (the max-balance validator may come later
than candidate 32 000). -/
theorem proposer_eq_spec {H cfg vals active} (ok : SampleOK H cfg vals active)
    (hm : HasMaxBalance cfg vals active) (hsmall : active.size ≤ 32000) (seed : ByteArray) :
    ∃ c, computeProposerIndex H cfg vals active seed = .ok c ∧
      ∀ extraFuel, Spec.compute_proposer_index H cfg vals.toList active.toList seed (32000 + extraFuel) 0 = .ok c :=
  computeProposerIndex_total ok hm hsmall seed

/-- **`ComputeSyncCommitteeIndices` = `get_next_sync_committee_indices`, with termination**: under the same balance
hypothesis both loops finish within `SYNC_COMMITTEE_SIZE · n + 1` iterations, return exactly
`SYNC_COMMITTEE_SIZE` indices, and the same ones. -/
theorem syncIndices_eq_spec {H cfg vals} (mixes : Nat → ByteArray) (slot : Nat)
    (ok : SampleOK H cfg vals (activeIndices vals (slot / cfg.SLOTS_PER_EPOCH + 1)))
    (hm : HasMaxBalance cfg vals (activeIndices vals (slot / cfg.SLOTS_PER_EPOCH + 1)))
    (fuel : Nat) (hf : cfg.SYNC_COMMITTEE_SIZE * (activeIndices vals (slot / cfg.SLOTS_PER_EPOCH + 1)).size + 1 ≤ fuel) :
    ∃ l, Spec.get_next_sync_committee_indices H cfg vals.toList mixes slot fuel = .ok l ∧
      l.length = cfg.SYNC_COMMITTEE_SIZE ∧
      computeSyncCommitteeIndices H cfg vals mixes slot (slot / cfg.SLOTS_PER_EPOCH + 1)
        (activeIndices vals (slot / cfg.SLOTS_PER_EPOCH + 1)) fuel = .ok l.toArray := by
  have hp := syncIndices_eq_spec_partial mixes slot ok fuel
  obtain ⟨l, hl, hlen⟩ := sync_loop_terminates ok hm
    (getSeed H cfg mixes (slot / cfg.SLOTS_PER_EPOCH + 1) DOMAIN_SYNC_COMMITTEE) cfg.SYNC_COMMITTEE_SIZE [] 0 fuel
    (by simp) hf
  have hs : Spec.get_next_sync_committee_indices H cfg vals.toList mixes slot fuel = .ok l := by
    unfold Spec.get_next_sync_committee_indices
    simp only []
    rw [← Zrnt.Proofs.Committees.activeIndices_eq_spec, ← getSeed_eq_spec]
    exact hl
  refine ⟨l, hs, hlen (by simp), ?_⟩
  rw [hp, hs]; rfl

/-! ## the `EpochsContext` lookups -/

/-- what `NewEpochsContext` holds when it succeeds: the three shufflings are `ComputeShufflingEpoch` of the
previous (`cur − 1`, or `cur` at genesis), current and next epoch, the proposers are `ComputeProposers` of the
current epoch over its active indices -/
theorem newEpochsContext_ok {H : ByteArray → ByteArray} {cfg : Cfg} (ok : CfgOK cfg) (vals : Array Val)
    (mixes : Nat → ByteArray) (slot : Nat) (hv : vals.size < 2 ^ 63) (c : Ctx)
    (h : newEpochsContext H cfg vals mixes slot = .ok c) :
    computeShufflingEpoch H cfg vals mixes (slot / cfg.SLOTS_PER_EPOCH - 1) = .ok c.previousEpoch ∧
    computeShufflingEpoch H cfg vals mixes (slot / cfg.SLOTS_PER_EPOCH) = .ok c.currentEpoch ∧
    computeShufflingEpoch H cfg vals mixes (slot / cfg.SLOTS_PER_EPOCH + 1) = .ok c.nextEpoch ∧
    c.proposersEpoch = slot / cfg.SLOTS_PER_EPOCH ∧
    computeProposers H cfg vals mixes (slot / cfg.SLOTS_PER_EPOCH) (activeIndices vals (slot / cfg.SLOTS_PER_EPOCH)) = .ok c.proposers := by
  have hspe : ¬ cfg.SLOTS_PER_EPOCH = 0 := by have := ok.spe_pos; omega
  have ex : ∀ e, ∃ se, computeShufflingEpoch H cfg vals mixes e = .ok se ∧ se.epoch = e ∧
      se.activeIndices = activeIndices vals e := fun e =>
    ⟨_, newShufflingEpoch_ok (H := H) ok vals (getSeed H cfg mixes e DOMAIN_BEACON_ATTESTER) e hv, rfl, rfl⟩
  unfold newEpochsContext at h
  simp only [hspe, if_false] at h
  generalize slot / cfg.SLOTS_PER_EPOCH = cur at h ⊢
  obtain ⟨s0, e0, p0, a0⟩ := ex cur
  obtain ⟨s1, e1, _, _⟩ := ex (cur - 1)
  obtain ⟨s2, e2, _, _⟩ := ex (cur + 1)
  rw [e0] at h
  simp only [bind, Res.bind] at h
  rw [p0, a0] at h
  by_cases hg : cur - 1 = cur
  · simp only [hg, if_true, pure] at h
    rw [e2] at h
    simp only at h
    cases hp : computeProposers H cfg vals mixes cur (activeIndices vals cur) with
    | ok ps =>
      rw [hp] at h
      simp only at h
      injection h with h
      subst h
      rw [hg]
      exact ⟨e0, e0, e2, rfl, rfl⟩
    | err => rw [hp] at h; cases h
    | panic => rw [hp] at h; cases h
    | outOfFuel => rw [hp] at h; cases h
  · simp only [hg, if_false] at h
    rw [e1] at h
    simp only at h
    rw [e2] at h
    simp only at h
    cases hp : computeProposers H cfg vals mixes cur (activeIndices vals cur) with
    | ok ps =>
      rw [hp] at h
      simp only at h
      injection h with h
      subst h
      exact ⟨e1, e0, e2, rfl, rfl⟩
    | err => rw [hp] at h; cases h
    | panic => rw [hp] at h; cases h
    | outOfFuel => rw [hp] at h; cases h

/-- the epoch lookup of a context built by `NewEpochsContext`: the shuffling of the asked epoch for the previous,
current and next epoch; an error (no panic) for every other epoch -/
theorem ctx_getEpochComms {H : ByteArray → ByteArray} {cfg : Cfg} (ok : CfgOK cfg) (vals : Array Val)
    (mixes : Nat → ByteArray) (slot : Nat) (hv : vals.size < 2 ^ 63) (c : Ctx)
    (h : newEpochsContext H cfg vals mixes slot = .ok c) (epoch : Nat) :
    (epoch = slot / cfg.SLOTS_PER_EPOCH - 1 ∨ epoch = slot / cfg.SLOTS_PER_EPOCH ∨ epoch = slot / cfg.SLOTS_PER_EPOCH + 1 →
      ∃ se, computeShufflingEpoch H cfg vals mixes epoch = .ok se ∧ c.getEpochComms epoch = .ok se.committees) ∧
    (¬ (epoch = slot / cfg.SLOTS_PER_EPOCH - 1 ∨ epoch = slot / cfg.SLOTS_PER_EPOCH ∨ epoch = slot / cfg.SLOTS_PER_EPOCH + 1) →
      c.getEpochComms epoch = .err) := by
  obtain ⟨hp, hc, hn, _, _⟩ := newEpochsContext_ok ok vals mixes slot hv c h
  have epP := computeShufflingEpoch_epoch ok vals mixes _ hv _ hp
  have epC := computeShufflingEpoch_epoch ok vals mixes _ hv _ hc
  have epN := computeShufflingEpoch_epoch ok vals mixes _ hv _ hn
  unfold Ctx.getEpochComms
  rw [epP, epC, epN]
  constructor
  · intro he
    rcases he with he | he | he
    · subst he
      exact ⟨_, hp, by simp⟩
    · subst he
      refine ⟨_, hc, ?_⟩
      by_cases hg : slot / cfg.SLOTS_PER_EPOCH = slot / cfg.SLOTS_PER_EPOCH - 1
      · rw [← hg] at hp
        rw [hc] at hp; injection hp with hp
        simp [← hg, ← hp]
      · simp [hg]
    · subst he
      have g1 : ¬ slot / cfg.SLOTS_PER_EPOCH + 1 = slot / cfg.SLOTS_PER_EPOCH - 1 := by omega
      exact ⟨_, hn, by simp [g1]⟩
  · intro hne
    have g1 : ¬ epoch = slot / cfg.SLOTS_PER_EPOCH - 1 := fun e => hne (Or.inl e)
    have g2 : ¬ epoch = slot / cfg.SLOTS_PER_EPOCH := fun e => hne (Or.inr (Or.inl e))
    have g3 : ¬ epoch = slot / cfg.SLOTS_PER_EPOCH + 1 := fun e => hne (Or.inr (Or.inr e))
    simp [g1, g2, g3]

/-- **`GetBeaconCommittee` of a context built by `NewEpochsContext` is `get_beacon_committee`** for every slot of
the previous, current and next epoch and every committee index below the specification's committee count. -/
theorem ctx_committee_eq_spec {H : ByteArray → ByteArray} (hH : ∀ x, (H x).size = 32) {cfg : Cfg} (ok : CfgOK cfg)
    (hsrc : cfg.SHUFFLE_ROUND_COUNT ≤ 255) (hmax : 0 < cfg.MAX_COMMITTEES_PER_SLOT) (vals : Array Val)
    (mixes : Nat → ByteArray) (slot : Nat) (hv : vals.size ≤ 2 ^ 40) (c : Ctx)
    (h : newEpochsContext H cfg vals mixes slot = .ok c)
    (epoch : Nat) (he : epoch = slot / cfg.SLOTS_PER_EPOCH - 1 ∨ epoch = slot / cfg.SLOTS_PER_EPOCH ∨
      epoch = slot / cfg.SLOTS_PER_EPOCH + 1)
    (s index : Nat) (hs : s < cfg.SLOTS_PER_EPOCH)
    (hi : index < Spec.get_committee_count_per_slot cfg vals.toList epoch) :
    c.getBeaconCommittee cfg (epoch * cfg.SLOTS_PER_EPOCH + s) index =
      Spec.get_beacon_committee H cfg vals.toList mixes (epoch * cfg.SLOTS_PER_EPOCH + s) index := by
  have hv63 : vals.size < 2 ^ 63 := by omega
  obtain ⟨se', hse', hcomms⟩ := (ctx_getEpochComms ok vals mixes slot hv63 c h epoch).1 he
  obtain ⟨se, m, hse, hm, hspec⟩ := committee_eq_spec hH ok hsrc vals mixes epoch hv s index hs hi
  rw [hse] at hse'; injection hse' with hse'; subst hse'
  have hidx : ¬ index ≥ cfg.MAX_COMMITTEES_PER_SLOT := by
    unfold Spec.get_committee_count_per_slot at hi
    omega
  have e1 : (epoch * cfg.SLOTS_PER_EPOCH + s) / cfg.SLOTS_PER_EPOCH = epoch := by
    rw [Nat.mul_comm, Nat.mul_add_div ok.spe_pos, Nat.div_eq_of_lt hs, Nat.add_zero]
  have e2 : (epoch * cfg.SLOTS_PER_EPOCH + s) % cfg.SLOTS_PER_EPOCH = s := by
    rw [Nat.mul_comm, Nat.mul_add_mod, Nat.mod_eq_of_lt hs]
  unfold Ctx.getBeaconCommittee
  simp only [hidx, if_false, e1, e2, hcomms, hspec]
  cases h1 : se.committees[s]? with
  | none => rw [h1] at hm; simp at hm
  | some sc =>
    rw [h1] at hm
    simp only [Option.bind_some] at hm
    simp only [hm]

/-- **`GetCommitteeCountPerSlot` is `get_committee_count_per_slot`** for the previous, current and next epoch, and an
error — not a panic — for every other epoch (the defect fixed in /repo commit b2763f6). -/
theorem ctx_count_eq_spec {H : ByteArray → ByteArray} {cfg : Cfg} (ok : CfgOK cfg) (vals : Array Val)
    (mixes : Nat → ByteArray) (slot : Nat) (hv : vals.size < 2 ^ 63) (c : Ctx)
    (h : newEpochsContext H cfg vals mixes slot = .ok c) (epoch : Nat) :
    (epoch = slot / cfg.SLOTS_PER_EPOCH - 1 ∨ epoch = slot / cfg.SLOTS_PER_EPOCH ∨ epoch = slot / cfg.SLOTS_PER_EPOCH + 1 →
      c.getCommitteeCountPerSlot epoch = .ok (Spec.get_committee_count_per_slot cfg vals.toList epoch)) ∧
    (¬ (epoch = slot / cfg.SLOTS_PER_EPOCH - 1 ∨ epoch = slot / cfg.SLOTS_PER_EPOCH ∨ epoch = slot / cfg.SLOTS_PER_EPOCH + 1) →
      c.getCommitteeCountPerSlot epoch = .err) := by
  obtain ⟨hin, hout⟩ := ctx_getEpochComms ok vals mixes slot hv c h epoch
  constructor
  · intro he
    obtain ⟨se, hse, hcomms⟩ := hin he
    have hex := newShufflingEpoch_ok (H := H) ok vals (getSeed H cfg mixes epoch DOMAIN_BEACON_ATTESTER) epoch hv
    unfold computeShufflingEpoch at hse
    rw [hex] at hse
    injection hse with hse
    unfold Ctx.getCommitteeCountPerSlot
    rw [hcomms, ← hse]
    have hcps : Spec.get_committee_count_per_slot cfg vals.toList epoch = cpsOf cfg (activeIndices vals epoch).size := by
      unfold Spec.get_committee_count_per_slot cpsOf
      rw [← Zrnt.Proofs.Committees.activeIndices_eq_spec, Array.length_toList]
    have := ok.spe_pos
    simp [this, hcps]
  · intro hne
    unfold Ctx.getCommitteeCountPerSlot
    rw [hout hne]

/-- **`GetBeaconProposer` of a context built by `NewEpochsContext` is `get_beacon_proposer_index`** for every slot
of the current epoch (the specification's loop, allowed at least 32 000 iterations, stops at that index).
Partial as `proposer_eq_spec_partial`: `NewEpochsContext` fails instead if some slot's first 32 000 candidates
are all rejected. -/
theorem ctx_proposer_eq_spec_partial {H : ByteArray → ByteArray} (hH : ∀ x, (H x).size = 32) {cfg : Cfg} (ok : CfgOK cfg)
    (hsrc : cfg.SHUFFLE_ROUND_COUNT ≤ 255) (vals : Array Val) (mixes : Nat → ByteArray) (slot : Nat)
    (hv : vals.size ≤ 2 ^ 40) (c : Ctx) (h : newEpochsContext H cfg vals mixes slot = .ok c)
    (s : Nat) (hs : s < cfg.SLOTS_PER_EPOCH) (extraFuel : Nat) :
    ∃ p, c.getBeaconProposer cfg (slot / cfg.SLOTS_PER_EPOCH * cfg.SLOTS_PER_EPOCH + s) = .ok p ∧
      Spec.get_beacon_proposer_index H cfg vals.toList mixes (slot / cfg.SLOTS_PER_EPOCH * cfg.SLOTS_PER_EPOCH + s)
        (32000 + extraFuel) = .ok p := by
  have hv63 : vals.size < 2 ^ 63 := by omega
  obtain ⟨_, _, _, hpe, hps⟩ := newEpochsContext_ok ok vals mixes slot hv63 c h
  have hne : 0 < (activeIndices vals (slot / cfg.SLOTS_PER_EPOCH)).size := by
    rcases Nat.eq_zero_or_pos (activeIndices vals (slot / cfg.SLOTS_PER_EPOCH)).size with h0 | h0
    · unfold computeProposers at hps
      simp only [h0, if_true] at hps
      cases hps
    · exact h0
  have sok := sampleOK_active hH hsrc vals hv (slot / cfg.SLOTS_PER_EPOCH) hne
  obtain ⟨hlen, hget⟩ := proposers_eq_spec_partial mixes (slot / cfg.SLOTS_PER_EPOCH) ok.spe_pos sok c.proposers hps extraFuel
  have e1 : (slot / cfg.SLOTS_PER_EPOCH * cfg.SLOTS_PER_EPOCH + s) / cfg.SLOTS_PER_EPOCH = slot / cfg.SLOTS_PER_EPOCH := by
    rw [Nat.mul_comm, Nat.mul_add_div ok.spe_pos, Nat.div_eq_of_lt hs, Nat.add_zero]
  have e2 : (slot / cfg.SLOTS_PER_EPOCH * cfg.SLOTS_PER_EPOCH + s) % cfg.SLOTS_PER_EPOCH = s := by
    rw [Nat.mul_comm, Nat.mul_add_mod, Nat.mod_eq_of_lt hs]
  refine ⟨c.proposers[s]'(by omega), ?_, hget s hs (by omega)⟩
  unfold Ctx.getBeaconProposer
  simp only [e1, e2, hpe, ne_eq, not_true_eq_false, if_false]
  rw [List.getElem?_eq_getElem (by omega)]
/-- **`NewEpochsContext` succeeds** on every state whose current epoch has an active validator at the maximum
effective balance (and at most 32 000 active validators): the three shufflings never fail, and no slot's proposer
sampling reaches the cut-off. Together with `ctx_committee_eq_spec`, `ctx_count_eq_spec` and
`ctx_proposer_eq_spec_partial` every answer of that context is the specification's. -/
theorem newEpochsContext_total {H : ByteArray → ByteArray} (hH : ∀ x, (H x).size = 32) {cfg : Cfg} (ok : CfgOK cfg)
    (hsrc : cfg.SHUFFLE_ROUND_COUNT ≤ 255) (vals : Array Val) (mixes : Nat → ByteArray) (slot : Nat)
    (hv : vals.size ≤ 2 ^ 40)
    (hm : HasMaxBalance cfg vals (activeIndices vals (slot / cfg.SLOTS_PER_EPOCH)))
    (hsmall : (activeIndices vals (slot / cfg.SLOTS_PER_EPOCH)).size ≤ 32000) :
    ∃ c, newEpochsContext H cfg vals mixes slot = .ok c := by
  have hv63 : vals.size < 2 ^ 63 := by omega
  have hspe : ¬ cfg.SLOTS_PER_EPOCH = 0 := by have := ok.spe_pos; omega
  have hne : 0 < (activeIndices vals (slot / cfg.SLOTS_PER_EPOCH)).size := by
    obtain ⟨p, hp, _⟩ := hm; omega
  have sok := sampleOK_active hH hsrc vals hv (slot / cfg.SLOTS_PER_EPOCH) hne
  have ex : ∀ e, ∃ se, computeShufflingEpoch H cfg vals mixes e = .ok se ∧ se.epoch = e ∧
      se.activeIndices = activeIndices vals e := fun e =>
    ⟨_, newShufflingEpoch_ok (H := H) ok vals (getSeed H cfg mixes e DOMAIN_BEACON_ATTESTER) e hv63, rfl, rfl⟩
  -- the proposers
  have hprops : ∃ ps, computeProposers H cfg vals mixes (slot / cfg.SLOTS_PER_EPOCH)
      (activeIndices vals (slot / cfg.SLOTS_PER_EPOCH)) = .ok ps := by
    unfold computeProposers
    have hn0 : ¬ (activeIndices vals (slot / cfg.SLOTS_PER_EPOCH)).size = 0 := by omega
    simp only [hn0, if_false]
    refine ⟨_, mapM_ok _ (fun i => match computeProposerIndex H cfg vals (activeIndices vals (slot / cfg.SLOTS_PER_EPOCH))
      (H (getSeed H cfg mixes (slot / cfg.SLOTS_PER_EPOCH) DOMAIN_BEACON_PROPOSER ++
        putUint64 (slot / cfg.SLOTS_PER_EPOCH * cfg.SLOTS_PER_EPOCH + i))) with | .ok c => c | _ => 0) _ ?_⟩
    intro i _
    obtain ⟨c, hc, _⟩ := computeProposerIndex_total sok hm hsmall
      (H (getSeed H cfg mixes (slot / cfg.SLOTS_PER_EPOCH) DOMAIN_BEACON_PROPOSER ++
        putUint64 (slot / cfg.SLOTS_PER_EPOCH * cfg.SLOTS_PER_EPOCH + i)))
    rw [hc]
  obtain ⟨ps, hps⟩ := hprops
  unfold newEpochsContext
  simp only [hspe, if_false]
  generalize slot / cfg.SLOTS_PER_EPOCH = cur at hps ⊢
  obtain ⟨s0, e0, p0, a0⟩ := ex cur
  obtain ⟨s1, e1, _, _⟩ := ex (cur - 1)
  obtain ⟨s2, e2, _, _⟩ := ex (cur + 1)
  rw [e0]
  simp only [bind, Res.bind]
  rw [p0, a0, hps]
  by_cases hg : cur - 1 = cur
  · simp only [hg, if_true, pure]
    rw [e2]
    exact ⟨_, rfl⟩
  · simp only [hg, if_false]
    rw [e1]
    simp only
    rw [e2]
    exact ⟨_, rfl⟩
/-! ## the concrete hash: SHA-256 (the `hH` hypothesis discharged by `sha256_size`) -/

theorem committee_eq_spec_sha256 {cfg : Cfg} (ok : CfgOK cfg) (hsrc : cfg.SHUFFLE_ROUND_COUNT ≤ 255) (vals : Array Val)
    (mixes : Nat → ByteArray) (epoch : Nat) (hv : vals.size ≤ 2 ^ 40) (slot index : Nat) (hs : slot < cfg.SLOTS_PER_EPOCH)
    (hi : index < Spec.get_committee_count_per_slot cfg vals.toList epoch) :
    ∃ se m, computeShufflingEpoch Zrnt.Sha256.hash cfg vals mixes epoch = .ok se ∧
      (se.committees[slot]?.bind (·[index]?)) = some m ∧
      Spec.get_beacon_committee Zrnt.Sha256.hash cfg vals.toList mixes (epoch * cfg.SLOTS_PER_EPOCH + slot) index = .ok m :=
  committee_eq_spec Zrnt.Proofs.Shuffle.sha256_size ok hsrc vals mixes epoch hv slot index hs hi

theorem ctx_committee_eq_spec_sha256 {cfg : Cfg} (ok : CfgOK cfg) (hsrc : cfg.SHUFFLE_ROUND_COUNT ≤ 255)
    (hmax : 0 < cfg.MAX_COMMITTEES_PER_SLOT) (vals : Array Val) (mixes : Nat → ByteArray) (slot : Nat)
    (hv : vals.size ≤ 2 ^ 40) (c : Ctx) (h : newEpochsContext Zrnt.Sha256.hash cfg vals mixes slot = .ok c)
    (epoch : Nat) (he : epoch = slot / cfg.SLOTS_PER_EPOCH - 1 ∨ epoch = slot / cfg.SLOTS_PER_EPOCH ∨
      epoch = slot / cfg.SLOTS_PER_EPOCH + 1)
    (s index : Nat) (hs : s < cfg.SLOTS_PER_EPOCH)
    (hi : index < Spec.get_committee_count_per_slot cfg vals.toList epoch) :
    c.getBeaconCommittee cfg (epoch * cfg.SLOTS_PER_EPOCH + s) index =
      Spec.get_beacon_committee Zrnt.Sha256.hash cfg vals.toList mixes (epoch * cfg.SLOTS_PER_EPOCH + s) index :=
  ctx_committee_eq_spec Zrnt.Proofs.Shuffle.sha256_size ok hsrc hmax vals mixes slot hv c h epoch he s index hs hi

theorem ctx_proposer_eq_spec_partial_sha256 {cfg : Cfg} (ok : CfgOK cfg) (hsrc : cfg.SHUFFLE_ROUND_COUNT ≤ 255)
    (vals : Array Val) (mixes : Nat → ByteArray) (slot : Nat) (hv : vals.size ≤ 2 ^ 40) (c : Ctx)
    (h : newEpochsContext Zrnt.Sha256.hash cfg vals mixes slot = .ok c) (s : Nat) (hs : s < cfg.SLOTS_PER_EPOCH)
    (extraFuel : Nat) :
    ∃ p, c.getBeaconProposer cfg (slot / cfg.SLOTS_PER_EPOCH * cfg.SLOTS_PER_EPOCH + s) = .ok p ∧
      Spec.get_beacon_proposer_index Zrnt.Sha256.hash cfg vals.toList mixes
        (slot / cfg.SLOTS_PER_EPOCH * cfg.SLOTS_PER_EPOCH + s) (32000 + extraFuel) = .ok p :=
  ctx_proposer_eq_spec_partial Zrnt.Proofs.Shuffle.sha256_size ok hsrc vals mixes slot hv c h s hs extraFuel

theorem newEpochsContext_total_sha256 {cfg : Cfg} (ok : CfgOK cfg) (hsrc : cfg.SHUFFLE_ROUND_COUNT ≤ 255)
    (vals : Array Val) (mixes : Nat → ByteArray) (slot : Nat) (hv : vals.size ≤ 2 ^ 40)
    (hm : HasMaxBalance cfg vals (activeIndices vals (slot / cfg.SLOTS_PER_EPOCH)))
    (hsmall : (activeIndices vals (slot / cfg.SLOTS_PER_EPOCH)).size ≤ 32000) :
    ∃ c, newEpochsContext Zrnt.Sha256.hash cfg vals mixes slot = .ok c :=
  newEpochsContext_total Zrnt.Proofs.Shuffle.sha256_size ok hsrc vals mixes slot hv hm hsmall

/-! ## non-vacuity: the hypotheses are satisfiable -/

/-- a small configuration (the "minimal" preset's committee constants) -/
def cfgMin : Cfg := ⟨8, 4, 4, 10, 64, 1, 32000000000, 32⟩

/-- three validators, two of them active at epoch 5 -/
def vals3 : Array Val := #[⟨0, 2 ^ 64 - 1, 32000000000⟩, ⟨7, 2 ^ 64 - 1, 31000000000⟩, ⟨0, 9, 0⟩]

def zeroHash : ByteArray → ByteArray := fun _ => ⟨Array.replicate 32 0⟩

example : CfgOK cfgMin := ⟨by decide, by decide, by decide, by decide, by decide⟩
example : activeIndices vals3 5 = #[0, 2] := by decide
example : SampleOK zeroHash cfgMin vals3 (activeIndices vals3 5) :=
  ⟨fun _ => rfl, by decide, by decide, by decide, by decide⟩
example : HasMaxBalance cfgMin vals3 (activeIndices vals3 5) := ⟨0, by decide, by decide, by decide⟩
example : (goSpec cfgMin).SLOTS_PER_EPOCH ≠ 0 ∧ (goSpec cfgMin).TARGET_COMMITTEE_SIZE ≠ 0 := by decide
-- 37 validators in 8·1 committees: sizes 4 and 5 only, boundaries 0 … 37
example : (List.range 9).map (bound 37 8) = [0, 4, 9, 13, 18, 23, 27, 32, 37] := by decide

end Zrnt.Proofs.C07
