import Proofs.Lemmas.PoolCor
import Proofs.Lemmas.PoolOnes
/-!
# C20 — operation pools keep what they are given and never panic

The model (`Zrnt.Pool.Model`: the five pools of `eth2/pool` as records of Go maps, `Cfg.fixed` = the code
after the `fix:` commits, `Cfg.old` = before) against the specification (`Zrnt.Pool.Spec`: the list of
accepted items). Quantifiers range over **all** operation sequences and all inputs, including malformed
bitfields and committees that do not match the bitfield. Tie H: `zmodel c20` prints model and
specification answers next to the answers of the real Go code.
-/
namespace Zrnt.Proofs.C20
open Zrnt Zrnt.Pool Zrnt.Pool.Spec

/-! ## 1. no panic -/

/-- No sequence of operations on freshly constructed pools reaches a panic (nil-map write, nil
dereference, index out of range), whatever the bitfields and committees are. -/
theorem pool_no_panic (ops : List Op) :
    ∀ o ∈ (Pools.run Cfg.fixed (Pools.new Cfg.fixed) ops).2, o ≠ Out.panic :=
  forall₂_ne_panic (run_sim poolsInv_new ops).2 (srun_ne_panic _ ops)

/-! ## 2. refinement -/

/-- The map-based pools refine the list-of-accepted-items specification: for every operation sequence the
two answer streams agree position by position (`OutsEquiv`), answers that come out of a Go map iteration
(`Search`, `All`) being compared as multisets (`List.Perm`) and all others by equality. -/
theorem pools_refine_spec (ops : List Op) :
    OutsEquiv (Pools.run Cfg.fixed (Pools.new Cfg.fixed) ops).2 (SPools.run SPools.new ops).2 :=
  (run_sim poolsInv_new ops).2

/-- The simulation relation behind `pools_refine_spec` holds in every reachable pair of states; its
attestation-pool part says: the four maps are allocated with unique keys, `datas[k].1 = k`, every key of
`aggregate` is a key of `datas`, `aggregate[d]` holds exactly the accepted aggregates of `d` (oldest first)
and the OR of their bits, `individual[(v, e)]` is the first accepted individual vote of `(v, e)`, and
`(v, e)` is a key of `aggPerValidator` iff `v` takes part in an accepted aggregate with target `e`. -/
theorem reachable_related (ops : List Op) :
    PoolsInv (Pools.run Cfg.fixed (Pools.new Cfg.fixed) ops).1 (SPools.run SPools.new ops).1 :=
  (run_sim poolsInv_new ops).1

/-- non-vacuity of the comparison: different answers are not equivalent -/
example : ¬ OutEquiv .ok .err := by simp [OutEquiv]
example : ¬ OutEquiv (.atts [⟨⟨1, 0, 0, 1⟩, [7], 5⟩]) (.atts []) := by simp [OutEquiv]

/-! ## 3. the indexes stay consistent -/

/-- In every reachable state the indexes fit together (`Pools.Consistent`): all maps allocated with unique
keys; `datas[k].1 = k`; aggregated data is known data; a `MinAggregates` entry is non-empty and its
`Participants` is the OR of its aggregates; an individual vote stored under `(v, e)` has target `e`;
each sync-committee buffer holds only items of its own slot (`currentSlot − 1`, `currentSlot`,
`currentSlot + 1`, wrapping). -/
theorem indexes_consistent (ops : List Op) :
    (Pools.run Cfg.fixed (Pools.new Cfg.fixed) ops).1.Consistent :=
  consistent_of_inv (reach_related ops)

/-! ## 4. consequences for the model, by the refinement

Notation (abbreviations from `Proofs.Lemmas.PoolCor`): `reach ops` is the model state after `ops` on freshly
constructed pools (`Cfg.fixed`), `sreach ops` the specification state after the same `ops`,
`answer w op` the model's answer to `op` in state `w`, `after w op` / `afterAll w ops` the model state
after `op` / after `ops`. -/

/-- **Prune is exact.** `Prune e` removes exactly the aggregates with target epoch `< e − 1` (saturating:
`e ≤ 1` removes nothing): every `Search` after it returns the items of the same `Search` before it that
have `target ≥ e − 1`, and nothing else. -/
theorem prune_exact (ops : List Op) (e : Nat) (s i : Option Nat) :
    ∃ before after', answer (reach ops) (.search s i) = .atts before ∧
      answer (after (reach ops) (.prune e)) (.search s i) = .atts after' ∧
      after'.Perm (before.filter fun a => !decide (a.data.target < e - 1)) := by
  have h := reach_related ops
  obtain ⟨l1, h1, p1⟩ := OutEquiv.atts_iff.mp (answer_equiv h (.search s i))
  obtain ⟨l2, h2, p2⟩ := OutEquiv.atts_iff.mp (answer_equiv (after_related h (.prune e)) (.search s i))
  refine ⟨l1, l2, h1, h2, ?_⟩
  have : Spec.search (Spec.prune (sreach ops).att e) s i =
      (Spec.search (sreach ops).att s i).filter (fun a => !decide (a.data.target < e - 1)) := search_prune _ _ _ _
  exact p2.trans (this ▸ (p1.filter _).symm)

/-- non-vacuity: target epoch 0 survives `Prune 1`, is removed by `Prune 2`; target 1 survives `Prune 2` -/
example : (Pools.run Cfg.fixed (Pools.new Cfg.fixed)
    [.att ⟨exD1, [0x07], 5⟩ [10, 11], .att ⟨⟨9, 0, 1, 3⟩, [0x07], 6⟩ [10, 11], .prune 1, .search none (some 0),
     .prune 2, .search none none]).2
    = [.ok, .ok, .ok, .atts [⟨⟨9, 0, 1, 3⟩, [0x07], 6⟩, ⟨exD1, [0x07], 5⟩], .ok, .atts [⟨⟨9, 0, 1, 3⟩, [0x07], 6⟩]] := by
  decide

/-- `Prune 0` and `Prune 1` remove nothing (`epoch.Previous()` saturates at 0). -/
theorem prune_saturates (ops : List Op) (e : Nat) (he : e ≤ 1) (s i : Option Nat) :
    ∃ before after', answer (reach ops) (.search s i) = .atts before ∧
      answer (after (reach ops) (.prune e)) (.search s i) = .atts after' ∧ after'.Perm before := by
  obtain ⟨b, a, h1, h2, p⟩ := prune_exact ops e s i
  refine ⟨b, a, h1, h2, ?_⟩
  have : b.filter (fun a => !decide (a.data.target < e - 1)) = b :=
    List.filter_eq_self.mpr (fun x _ => by have : e - 1 = 0 := by omega
                                           simp [this])
  rwa [this] at p

/-- **Search is complete.** Every aggregate the specification has accepted and that has not been pruned
is returned by every `Search` whose filter it matches — in particular by the unfiltered `Search`. -/
theorem search_complete (ops : List Op) (d : AttData) (b : Bits) (sg : Nat) (c : List Nat)
    (hacc : Ev.agg d b sg c ∈ (sreach ops).att) (s i : Option Nat) (hm : matchesFilter s i d = true) :
    ∃ l, answer (reach ops) (.search s i) = .atts l ∧ (⟨d, b, sg⟩ : Att) ∈ l := by
  obtain ⟨l, hl, p⟩ := OutEquiv.atts_iff.mp (answer_equiv (reach_related ops) (.search s i))
  exact ⟨l, hl, p.mem_iff.mpr ((mem_search_iff _ s i ⟨d, b, sg⟩).mpr ⟨hm, c, hacc⟩)⟩

example : Ev.agg exD1 [0x07] 5 [10, 11] ∈ (sreach [.att ⟨exD1, [0x07], 5⟩ [10, 11]]).att := by decide

theorem search_complete_unfiltered (ops : List Op) (d : AttData) (b : Bits) (sg : Nat) (c : List Nat)
    (hacc : Ev.agg d b sg c ∈ (sreach ops).att) :
    ∃ l, answer (reach ops) (.search none none) = .atts l ∧ (⟨d, b, sg⟩ : Att) ∈ l :=
  search_complete ops d b sg c hacc none none rfl

/-- … and in terms of the history: the first aggregate for some data, once answered `ok`, is returned by
every later unfiltered `Search` until a `Prune e` with `target < e − 1`. -/
theorem first_aggregate_searchable (ops mid : List Op) (a : Att) (c : List Nat)
    (hnew : a.data ∉ (reach ops).att.aggregate.keys) (hcount : 2 ≤ onesCount a.bits)
    (hok : answer (reach ops) (.att a c) = .ok)
    (hmid : ∀ e, Op.prune e ∈ mid → ¬ a.data.target < e - 1) :
    ∃ l, answer (afterAll (after (reach ops) (.att a c)) mid) (.search none none) = .atts l ∧ a ∈ l := by
  have h := reach_related ops
  have hnil : aggsFor (sreach ops).att a.data = [] :=
    (h.att.aggNone a.data).mp (GoMap.get?_eq_none_iff.mpr hnew)
  have hspec : ((sreach ops).step (.att a c)).2 = .ok := spec_ok_of_answer_ok h hok
  -- the specification appended the aggregate
  have hin : Ev.agg a.data a.bits a.sig c ∈ ((sreach ops).step (.att a c)).1.att := by
    rw [sstep_att]; dsimp only
    rcases spec_add_cases (sreach ops).att a c with e | ⟨_, ⟨v, _, h1, _, _⟩ | ⟨_, _, e⟩⟩
    · -- unchanged list: the answer was `err` (new data is never absorbed)
      exfalso
      have : (Spec.add (sreach ops).att a c).2 = false := by
        rw [spec_add_eq] at e ⊢
        have h0 : onesCount a.bits ≠ 0 := by omega
        have h1 : onesCount a.bits ≠ 1 := by omega
        rw [if_neg h0, if_neg h1] at e ⊢
        split
        · rfl
        · rename_i hl
          rw [if_neg hl] at e
          unfold specAddAgg at e ⊢
          rw [hnil] at e ⊢
          dsimp only at e ⊢
          split
          · rename_i hany; rw [if_pos hany] at e; simp at e
          · rfl
      simp only [SPools.step, this, outOfBool] at hspec
      cases hspec
    · omega
    · rw [e]; exact List.mem_append_right _ (List.mem_singleton.mpr rfl)
  have hper := srun_att_persist _ mid _ hin (by simpa using hmid)
  have hrel := afterAll_related (after_related h (.att a c)) mid
  obtain ⟨l, hl, p⟩ := OutEquiv.atts_iff.mp (answer_equiv hrel (.search none none))
  exact ⟨l, hl, p.mem_iff.mpr ((mem_search_iff _ none none a).mpr ⟨rfl, c, hper⟩)⟩

example : exD1 ∉ (reach []).att.aggregate.keys ∧ 2 ≤ onesCount [0x07] ∧
    answer (reach []) (.att ⟨exD1, [0x07], 5⟩ [10, 11]) = .ok := by decide

/-- Every accepted attester slashing is listed by `All()` from then on. -/
theorem accepted_attester_slashing_listed (ops mid : List Op) (a b : Nat)
    (hok : answer (reach ops) (.aslash a b) = .ok) :
    ∃ l, answer (afterAll (after (reach ops) (.aslash a b)) mid) .aslashes = .pairs l ∧ (a, b) ∈ l := by
  have h := reach_related ops
  have hspec : ((sreach ops).step (.aslash a b)).2 = .ok := spec_ok_of_answer_ok h hok
  have hk : (a, b) ∉ (sreach ops).asl.map (·.1) := by
    have : outOfBool (keyedAdd (sreach ops).asl (a, b) (a, b)).2 = .ok := hspec
    exact (keyedAdd_true_iff _ _ _).mp (outOfBool_eq_ok.mp this)
  obtain ⟨t, ht⟩ := srun_asl_prefix ((sreach ops).step (.aslash a b)).1 mid
  have hrel := afterAll_related (after_related h (.aslash a b)) mid
  obtain ⟨l, hl, p⟩ := OutEquiv.pairs_iff.mp (answer_equiv hrel .aslashes)
  refine ⟨l, hl, p.mem_iff.mpr ?_⟩
  show (a, b) ∈ keyedAll ((((sreach ops).step (.aslash a b)).1.run mid).1.asl) []
  rw [ht]
  simp only [SPools.step, keyedAdd, List.append_assoc, List.singleton_append]
  exact mem_keyedAll_of_first List.not_mem_nil hk

/-- Every accepted proposer slashing is listed by `All()` from then on. -/
theorem accepted_proposer_slashing_listed (ops mid : List Op) (pr id : Nat)
    (hok : answer (reach ops) (.pslash pr id) = .ok) :
    ∃ l, answer (afterAll (after (reach ops) (.pslash pr id)) mid) .pslashes = .pairs l ∧ (pr, id) ∈ l := by
  have h := reach_related ops
  have hspec : ((sreach ops).step (.pslash pr id)).2 = .ok := spec_ok_of_answer_ok h hok
  have hk : pr ∉ (sreach ops).psl.map (·.1) := by
    have : outOfBool (keyedAdd (sreach ops).psl pr (pr, id)).2 = .ok := hspec
    exact (keyedAdd_true_iff _ _ _).mp (outOfBool_eq_ok.mp this)
  obtain ⟨t, ht⟩ := srun_psl_prefix ((sreach ops).step (.pslash pr id)).1 mid
  have hrel := afterAll_related (after_related h (.pslash pr id)) mid
  obtain ⟨l, hl, p⟩ := OutEquiv.pairs_iff.mp (answer_equiv hrel .pslashes)
  refine ⟨l, hl, p.mem_iff.mpr ?_⟩
  show (pr, id) ∈ keyedAll ((((sreach ops).step (.pslash pr id)).1.run mid).1.psl) []
  rw [ht]
  simp only [SPools.step, keyedAdd, List.append_assoc, List.singleton_append]
  exact mem_keyedAll_of_first List.not_mem_nil hk

/-- Every accepted voluntary exit is listed by `All()` from then on. -/
theorem accepted_exit_listed (ops mid : List Op) (v ep : Nat)
    (hok : answer (reach ops) (.exit v ep) = .ok) :
    ∃ l, answer (afterAll (after (reach ops) (.exit v ep)) mid) .exits = .pairs l ∧ (v, ep) ∈ l := by
  have h := reach_related ops
  have hspec : ((sreach ops).step (.exit v ep)).2 = .ok := spec_ok_of_answer_ok h hok
  have hk : v ∉ (sreach ops).exits.map (·.1) := by
    have : outOfBool (keyedAdd (sreach ops).exits v (v, ep)).2 = .ok := hspec
    exact (keyedAdd_true_iff _ _ _).mp (outOfBool_eq_ok.mp this)
  obtain ⟨t, ht⟩ := srun_exits_prefix ((sreach ops).step (.exit v ep)).1 mid
  have hrel := afterAll_related (after_related h (.exit v ep)) mid
  obtain ⟨l, hl, p⟩ := OutEquiv.pairs_iff.mp (answer_equiv hrel .exits)
  refine ⟨l, hl, p.mem_iff.mpr ?_⟩
  show (v, ep) ∈ keyedAll ((((sreach ops).step (.exit v ep)).1.run mid).1.exits) []
  rw [ht]
  simp only [SPools.step, keyedAdd, List.append_assoc, List.singleton_append]
  exact mem_keyedAll_of_first List.not_mem_nil hk

example : answer (reach []) (.aslash 1 2) = .ok ∧ answer (reach [.pslash 7 1]) (.pslash 7 2) = .err ∧
    answer (reach [.pslash 7 1, .pslash 7 2, .pslash 8 3]) .pslashes = .pairs [(8, 3), (7, 1)] ∧
    answer (reach [.exit 4 9]) (.exit 5 9) = .ok := by decide

/-- **Search is sound.** Every item `Search` returns matches the filter and was added by an earlier
`AddAttestation` call with exactly that data, bits and signature which was answered `ok`, and no `Prune e`
with `target < e − 1` came after it. -/
theorem search_sound (ops : List Op) (s i : Option Nat) :
    ∃ l, answer (reach ops) (.search s i) = .atts l ∧ ∀ x ∈ l,
      matchesFilter s i x.data = true ∧
      ∃ j c, ops[j]? = some (Op.att x c) ∧
        (Pools.run Cfg.fixed (Pools.new Cfg.fixed) ops).2[j]? = some Out.ok ∧
        ∀ (j' e : Nat), j < j' → ops[j']? = some (Op.prune e) → ¬ x.data.target < e - 1 := by
  obtain ⟨l, hl, p⟩ := OutEquiv.atts_iff.mp (answer_equiv (reach_related ops) (.search s i))
  refine ⟨l, hl, fun x hx => ?_⟩
  obtain ⟨hm, c, hc⟩ := (mem_search_iff _ s i x).mp (p.mem_iff.mp hx)
  obtain ⟨j, hj, hout, hpr⟩ := log_history ops x.data x.bits x.sig c hc
  obtain ⟨o, ho, heq⟩ := outsEquiv_getElem? (pools_refine_spec ops) j _ hout
  exact ⟨hm, j, c, hj, by rw [ho, OutEquiv.ok_iff.mp heq], hpr⟩

/-- **An exact duplicate is absorbed.** If `AddAttestation(att, committee)` was answered `ok` — an
individual attestation, the first aggregate of some data, or a further aggregate that added participants —
then the same call once more is answered `ok` again and is unobservable: every later operation sequence
gets equivalent answers with and without the duplicate. -/
theorem dup_absorbed (ops rest : List Op) (a : Att) (c : List Nat)
    (hok : answer (reach ops) (.att a c) = .ok) :
    let w1 := after (reach ops) (.att a c)
    answer w1 (.att a c) = .ok ∧
      OutsEquiv ((after w1 (.att a c)).run Cfg.fixed rest).2 (w1.run Cfg.fixed rest).2 := by
  intro w1
  have h := reach_related ops
  have hspec : outOfBool (Spec.add (sreach ops).att a c).2 = .ok := spec_ok_of_answer_ok h hok
  have hidem := spec_add_idem (outOfBool_eq_ok.mp hspec)
  have h1 : PoolsInv w1 ((sreach ops).step (.att a c)).1 := after_related h (.att a c)
  -- the specification state does not move on the duplicate
  have hstep : (((sreach ops).step (.att a c)).1.step (.att a c)) = (((sreach ops).step (.att a c)).1, .ok) := by
    show (let (l, b) := Spec.add (Spec.add (sreach ops).att a c).1 a c
          (({ ((sreach ops).step (.att a c)).1 with att := l } : SPools), outOfBool b)) = _
    rw [hidem]; rfl
  have h2 : PoolsInv (after w1 (.att a c)) ((sreach ops).step (.att a c)).1 := by
    have := after_related h1 (.att a c); rwa [hstep] at this
  refine ⟨answer_ok_of_spec_ok h1 (by rw [hstep]), ?_⟩
  exact (run_sim h2 rest).2.trans (run_sim h1 rest).2.symm

/-- non-vacuity, also for the second and third aggregate of a data (`Search` still returns 3 items) -/
example : (Pools.run Cfg.fixed (Pools.new Cfg.fixed)
    [.att ⟨exD1, [0x13], 5⟩ [1, 2, 3, 4], .att ⟨exD1, [0x16], 6⟩ [1, 2, 3, 4], .att ⟨exD1, [0x1c], 7⟩ [1, 2, 3, 4],
     .att ⟨exD1, [0x1c], 7⟩ [1, 2, 3, 4], .att ⟨exD1, [0x16], 6⟩ [1, 2, 3, 4], .search none none]).2
    = [.ok, .ok, .ok, .ok, .ok, .atts [⟨exD1, [0x13], 5⟩, ⟨exD1, [0x16], 6⟩, ⟨exD1, [0x1c], 7⟩]] := by decide

/-- **A conflicting second vote is reported.** After an individual attestation by validator `v` for data
`d₁` was accepted, a later individual attestation by `v` with the same target epoch for different data
`d₂` is answered with an error — as long as no `Prune e` with `target < e − 1` came in between. -/
theorem double_vote_reported (ops mid : List Op) (a1 a2 : Att) (c1 c2 : List Nat) (v : Nat)
    (h1 : onesCount a1.bits = 1) (hv1 : singleParticipant a1.bits c1 = .ok v)
    (hok : answer (reach ops) (.att a1 c1) = .ok)
    (hmid : ∀ e, Op.prune e ∈ mid → ¬ a1.data.target < e - 1)
    (h2 : onesCount a2.bits = 1) (hv2 : singleParticipant a2.bits c2 = .ok v)
    (ht : a2.data.target = a1.data.target) (hd : a2.data ≠ a1.data) :
    answer (afterAll (after (reach ops) (.att a1 c1)) mid) (.att a2 c2) = .err := by
  have h := reach_related ops
  have hspec : outOfBool (Spec.add (sreach ops).att a1 c1).2 = .ok := spec_ok_of_answer_ok h hok
  have hvote : singleVote ((sreach ops).step (.att a1 c1)).1.att v a1.data.target = some a1.data := by
    rw [sstep_att]; exact spec_single_accepted h1 hv1 (outOfBool_eq_ok.mp hspec)
  have hper := srun_singleVote_persist _ mid v _ _ hvote hmid
  have hrel := afterAll_related (after_related h (.att a1 c1)) mid
  apply answer_err_of_spec_err hrel
  show outOfBool (Spec.add _ a2 c2).2 = .err
  rw [outOfBool_eq_err]
  exact spec_single_conflict h2 hv2 (ht ▸ hper) (fun e => hd e.symm)

/-- non-vacuity: the hypotheses are satisfiable, and the same history without the conflict is accepted -/
example : answer (afterAll (after (reach []) (.att ⟨⟨1, 0, 0, 1⟩, [0x05], 5⟩ [10, 11])) [.prune 1])
    (.att ⟨⟨1, 0, 0, 2⟩, [0x05], 6⟩ [10, 11]) = .err := by decide
example : answer (afterAll (after (reach []) (.att ⟨⟨1, 0, 0, 1⟩, [0x05], 5⟩ [10, 11])) [.prune 1])
    (.att ⟨⟨1, 0, 0, 1⟩, [0x05], 6⟩ [10, 11]) = .ok := by decide

/-- … and for aggregates: an aggregate for data without accepted aggregates, all of whose participants
already take part in accepted (unpruned) aggregates with the same target epoch, is answered with an error. -/
theorem double_vote_aggregate_reported (ops : List Op) (a : Att) (c : List Nat)
    (h2 : 2 ≤ onesCount a.bits) (hnew : aggsFor (sreach ops).att a.data = [])
    (hall : ∀ v ∈ participants a.bits c, votedAgg (sreach ops).att v a.data.target = true) :
    answer (reach ops) (.att a c) = .err := by
  apply answer_err_of_spec_err (reach_related ops)
  show outOfBool (Spec.add _ a c).2 = .err
  rw [outOfBool_eq_err]
  exact spec_agg_all_voted h2 hnew hall

/-- the same statement read off the model's own maps -/
theorem double_vote_aggregate_reported' (ops : List Op) (a : Att) (c : List Nat)
    (h2 : 2 ≤ onesCount a.bits) (hnew : a.data ∉ (reach ops).att.aggregate.keys)
    (hall : ∀ v ∈ participants a.bits c, (v, a.data.target) ∈ (reach ops).att.aggPerValidator.keys) :
    answer (reach ops) (.att a c) = .err := by
  have h := reach_related ops
  exact double_vote_aggregate_reported ops a c h2
    ((h.att.aggNone a.data).mp (GoMap.get?_eq_none_iff.mpr hnew))
    (fun v hv => (h.att.apv v a.data.target).mp (hall v hv))

example : answer (reach [.att ⟨⟨1, 0, 0, 1⟩, [0x07], 5⟩ [10, 11]]) (.att ⟨⟨1, 0, 0, 2⟩, [0x07], 6⟩ [10, 11]) = .err := by
  decide

/-- **Window rotation of the sync-committee pool.** After `Reset s` the pool is at slot `s`; it accepts
exactly the messages and contributions of slots `s − 1`, `s`, `s + 1` (64-bit wrap-around); and it keeps
exactly the stored items whose slot is inside the new window if `s` was inside the old window
(`s = cur − 1`, `cur`, `cur + 1`), and nothing otherwise. -/
theorem window_rotation (ops : List Op) (slot : UInt64) :
    let p := (reach ops).sync
    let w' := after (reach ops) (.sreset slot)
    w'.sync.currentSlot = slot ∧
    (∀ m, answer w' (.smsg m) = if inWindow slot m.slot then .ok else .err) ∧
    (∀ c, answer w' (.scontrib c) = if inWindow slot c.slot then .ok else .err) ∧
    storedMsgs w'.sync =
      (if inWindow p.currentSlot slot then (storedMsgs p).filter (fun m => inWindow slot m.slot) else []) ∧
    storedContribs w'.sync =
      (if inWindow p.currentSlot slot then (storedContribs p).filter (fun c => inWindow slot c.slot) else []) := by
  intro p w'
  have h := reach_related ops
  have hrel : PoolsInv w' ((sreach ops).step (.sreset slot)).1 := after_related h (.sreset slot)
  have hcur : ((sreach ops).step (.sreset slot)).1.sync.cur = slot := spec_reset_cur _ _
  refine ⟨reset_currentSlot _ _, ?_, ?_, reset_stored (consistent_of_inv h).sync slot⟩
  · intro m
    have := answer_equiv hrel (.smsg m)
    have hs : (((sreach ops).step (.sreset slot)).1.step (.smsg m)).2 =
        outOfBool (inWindow slot m.slot) := by
      show outOfBool (((sreach ops).step (.sreset slot)).1.sync.addMessage m).2 = _
      rw [spec_addMessage_snd, hcur]
    rw [hs, outOfBool_eq_ite] at this
    cases hw : inWindow slot m.slot
    · rw [hw] at this; simpa using OutEquiv.err_iff.mp this
    · rw [hw] at this; simpa using OutEquiv.ok_iff.mp this
  · intro c
    have := answer_equiv hrel (.scontrib c)
    have hs : (((sreach ops).step (.sreset slot)).1.step (.scontrib c)).2 =
        outOfBool (inWindow slot c.slot) := by
      show outOfBool (((sreach ops).step (.sreset slot)).1.sync.addContribution c).2 = _
      rw [spec_addContribution_snd, hcur]
    rw [hs, outOfBool_eq_ite] at this
    cases hw : inWindow slot c.slot
    · rw [hw] at this; simpa using OutEquiv.err_iff.mp this
    · rw [hw] at this; simpa using OutEquiv.ok_iff.mp this

/-- the window in plain terms -/
theorem window_slots (s x : UInt64) : inWindow s x = true ↔ x = s - 1 ∨ x = s ∨ x = s + 1 := inWindow_iff s x

/-- non-vacuity: a fresh pool is at slot `2^64 − 1`, so slot 0 is its next slot; after `Reset 0` the
message stored for slot 0 survives, after `Reset 5` it does not -/
example : (Pools.run Cfg.fixed (Pools.new Cfg.fixed)
    [.smsg ⟨0, 1, 1⟩, .smsg ⟨1, 1, 1⟩, .sreset 0, .smsg ⟨1, 1, 1⟩, .smsg ⟨18446744073709551615, 2, 1⟩, .smsg ⟨2, 1, 1⟩]).2
    = [.ok, .err, .ok, .ok, .ok, .err] := by decide
example : storedMsgs (reach [.smsg ⟨0, 1, 1⟩, .sreset 0]).sync = [⟨0, 1, 1⟩] ∧
    storedMsgs (reach [.smsg ⟨0, 1, 1⟩, .sreset 5]).sync = [] := by decide

/-! ## 5. the bit functions -/

/-- `AttestationBits.Covers` on valid bitlists decides coverage of the denoted bit lists (and reports a
length mismatch exactly when the bit lists differ in length). -/
theorem covers_spec (a b : Bits) (ha : WellFormed a) (hb : WellFormed b) :
    covers a b = BitSpec.covers (toBools a) (toBools b) := covers_spec' a b ha hb

example : WellFormed [0x07] ∧ WellFormed [0x05] ∧ covers [0x07] [0x05] = .ok true ∧
    covers [0x05] [0x07] = .ok false ∧ covers [0x07] [0x0f] = .err := by decide

/-- Without well-formedness the statement is false: a trailing zero byte has no delimiter bit. -/
theorem covers_spec_needs_wellFormed :
    covers [0x00] [0x01] ≠ BitSpec.covers (toBools [0x00]) (toBools [0x01]) := by decide

/-- `AttestationBits.SingleParticipant` returns the one committee member whose bit is set, reports an
error for none, several, or a committee of the wrong size, and never panics — for every byte string
(the hypothesis `WellFormed a` of the wanted statement is not needed). -/
theorem singleParticipant_spec (a : Bits) (c : List Nat) :
    singleParticipant a c = BitSpec.singleParticipant (toBools a) c := singleParticipant_spec' a c

example : singleParticipant [0x0a] [7, 8, 9] = .ok 8 := by decide

/-- `bitfields.BitlistOnesCount` counts the set bits below the delimiter bit — for every byte string. -/
theorem onesCount_spec (b : Bits) : onesCount b = BitSpec.onesCount (toBools b) := onesCount_spec' b

example : onesCount [0xff, 0x03] = 9 ∧ onesCount [0x01] = 0 := by decide

/-- `bitfields.BitIndex` is the position of the highest set bit. -/
theorem bitIndex_spec (v : UInt8) (h : v ≠ 0) : bitIndex v = Nat.log2 v.toNat := bitIndex_eq_log2 v h

example : bitIndex 0x80 = 7 ∧ bitIndex 1 = 0 ∧ bitIndex 0 = 0 := by decide

/-- `GetBit` inside the bitlist is the denoted bit and does not panic. -/
theorem getBit_spec (b : Bits) (i : Nat) (h : i < bitlistLen b) :
    getBit b i = .ok ((toBools b).getD i false) := by
  rw [getBit_of_lt_bitlistLen h]
  simp [toBools, List.getD, h]

/-- `SyncCommitteeMessages.Select` on a buffer whose keys are unique and equal the validator of the stored
message (every buffer of a reachable pool, by `indexes_consistent`) returns, in member order, exactly the
members whose stored message is for `root`, and does not panic for members without a message. -/
theorem select_spec (b : MsgBuf) (hn : b.keys.Nodup) (hkey : ∀ e ∈ b.entries, e.1 = e.2.validator)
    (root : Nat) (members : List Nat) :
    select Cfg.fixed b root members = .ok (Spec.select (msgsOf b) root members) := select_spec' hn hkey root members

example : select Cfg.fixed ((GoMap.make.insert 1 ⟨1, 1, 5⟩).insert 2 ⟨1, 2, 6⟩) 5 [2, 1, 3] = .ok [1] := by decide

/-- Note on the driver-level specification of a `select` line (not the pool): `Spec.select` applied to the
*raw list* of the line is not what Go computes when the list names a validator twice with different roots —
the Go map (and the model's `msgBuf`) keeps the later message only. Witness line: `select 5 1 1:5,1:6`
(model and Go `ok -`, `Spec.select` on the raw list `ok 1`). The driver therefore applies `Spec.select` to
the last message per validator (`Driver.lastPerValidator`), and the generator emits this line. On the list
of messages a buffer actually holds (`msgsOf b`) model and specification agree (`select_spec`). -/
theorem select_rawlist_spec_mismatch :
    select Cfg.fixed ((GoMap.make.insert 1 ⟨1, 1, 5⟩).insert 1 ⟨1, 1, 6⟩) 5 [1] = .ok [] ∧
    Spec.select [⟨1, 1, 5⟩, ⟨1, 1, 6⟩] 5 [1] = [1] := by decide

/-! ## 6. the defects of the code before the `fix:` commits (`Cfg.old`), each on a concrete witness -/


/-- `NewAttestationPool` left `aggPerValidator` nil: the first aggregate attestation panics. -/
theorem old_first_aggregate_panics :
    (Pools.run Cfg.old (Pools.new Cfg.old) [.att ⟨exD1, [0x07], 5⟩ [10, 11]]).2 = [.panic] := by decide

/-- `Search` dereferenced the missing `aggregate` entry of data known only from an individual attestation. -/
theorem old_search_after_single_panics :
    (Pools.run Cfg.old (Pools.new Cfg.old) [.att ⟨exD1, [0x05], 5⟩ [10, 11], .search none none]).2
      = [.ok, .panic] := by decide

/-- No length check: an aggregate with a 1-byte bitfield and a 10-member committee reads bit 8 and panics
(with the other defects repaired, to isolate this one). -/
theorem old_short_bitfield_panics :
    (Pools.run { Cfg.fixed with aggLenCheck := false } (Pools.new Cfg.fixed)
      [.att ⟨exD1, [0x07], 5⟩ [1, 2, 3, 4, 5, 6, 7, 8, 9, 10]]).2 = [.panic] := by decide

/-- `Participants` was not OR-ed: after aggregates A, B a second B is stored again; `Search` returns 3 items. -/
theorem old_duplicate_aggregate_stored :
    (Pools.run { Cfg.fixed with orParticipants := false } (Pools.new Cfg.fixed)
      [.att ⟨exD1, [0x13], 5⟩ [1, 2, 3, 4], .att ⟨exD1, [0x1c], 6⟩ [1, 2, 3, 4], .att ⟨exD1, [0x1c], 6⟩ [1, 2, 3, 4],
       .search none none]).2
      = [.ok, .ok, .ok, .atts [⟨exD1, [0x13], 5⟩, ⟨exD1, [0x1c], 6⟩, ⟨exD1, [0x1c], 6⟩]] := by decide

/-- the same history on the fixed code: the duplicate is absorbed -/
theorem fixed_duplicate_aggregate_absorbed :
    (Pools.run Cfg.fixed (Pools.new Cfg.fixed)
      [.att ⟨exD1, [0x13], 5⟩ [1, 2, 3, 4], .att ⟨exD1, [0x1c], 6⟩ [1, 2, 3, 4], .att ⟨exD1, [0x1c], 6⟩ [1, 2, 3, 4],
       .search none none]).2
      = [.ok, .ok, .ok, .atts [⟨exD1, [0x13], 5⟩, ⟨exD1, [0x1c], 6⟩]] := by decide

/-- `NewSyncCommitteePool` left the buffers nil while slot 0 is the "next" slot of a new pool. -/
theorem old_smsg_slot0_panics :
    (Pools.run Cfg.old (Pools.new Cfg.old) [.smsg ⟨0, 1, 1⟩]).2 = [.panic] := by decide

/-- `Select` dereferenced the nil message of a member that has not sent one. -/
theorem old_select_missing_member_panics : select Cfg.old .make 7 [3] = .panic := by decide

/-- hence the full theorem fails for the old code -/
theorem old_not_pool_no_panic :
    ¬ ∀ ops, ∀ o ∈ (Pools.run Cfg.old (Pools.new Cfg.old) ops).2, o ≠ Out.panic := by
  intro h
  exact h [.att ⟨exD1, [0x07], 5⟩ [10, 11]] .panic (by decide) rfl

end Zrnt.Proofs.C20
