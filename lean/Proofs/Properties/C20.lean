import Proofs.Lemmas.PoolSim
/-!
# C20 — operation pools keep what they are given and never panic

The model (`Zrnt.Pool.Model`: the five pools of `eth2/pool` as records of Go maps, `Cfg.fixed` = the code
after the `fix:` commits, `Cfg.old` = before) against the specification (`Zrnt.Pool.Spec`: the list of
accepted items). Quantifiers range over **all** operation sequences and all inputs, including malformed
bitfields and committees that do not match the bitfield. Tie H: `zmodel c20` prints model and
specification answers next to the answers of the real Go code.
-/
namespace Zrnt.Proofs.C20
open Zrnt Zrnt.Pool Zrnt.Pool.Spec

/-! ## 1. no panic -/

/-- No sequence of operations on freshly constructed pools reaches a panic (nil-map write, nil
dereference, index out of range), whatever the bitfields and committees are. -/
theorem pool_no_panic (ops : List Op) :
    ∀ o ∈ (Pools.run Cfg.fixed (Pools.new Cfg.fixed) ops).2, o ≠ Out.panic :=
  forall₂_ne_panic (run_sim poolsInv_new ops).2 (srun_ne_panic _ ops)

/-! ## 2. refinement -/

/-- The map-based pools refine the list-of-accepted-items specification: for every operation sequence the
two answer streams agree position by position (`OutsEquiv`), answers that come out of a Go map iteration
(`Search`, `All`) being compared as multisets (`List.Perm`) and all others by equality. -/
theorem pools_refine_spec (ops : List Op) :
    OutsEquiv (Pools.run Cfg.fixed (Pools.new Cfg.fixed) ops).2 (SPools.run SPools.new ops).2 :=
  (run_sim poolsInv_new ops).2

/-- The simulation relation behind `pools_refine_spec` holds in every reachable pair of states; its
attestation-pool part says: the four maps are allocated with unique keys, `datas[k].1 = k`, every key of
`aggregate` is a key of `datas`, `aggregate[d]` holds exactly the accepted aggregates of `d` (oldest first)
and the OR of their bits, `individual[(v, e)]` is the first accepted individual vote of `(v, e)`, and
`(v, e)` is a key of `aggPerValidator` iff `v` takes part in an accepted aggregate with target `e`. -/
theorem reachable_related (ops : List Op) :
    PoolsInv (Pools.run Cfg.fixed (Pools.new Cfg.fixed) ops).1 (SPools.run SPools.new ops).1 :=
  (run_sim poolsInv_new ops).1

/-- non-vacuity of the comparison: different answers are not equivalent -/
example : ¬ OutEquiv .ok .err := by simp [OutEquiv]
example : ¬ OutEquiv (.atts [⟨⟨1, 0, 0, 1⟩, [7], 5⟩]) (.atts []) := by simp [OutEquiv]

/-! ## 3. the indexes stay consistent -/

/-- In every reachable state the indexes fit together (`Pools.Consistent`): all maps allocated with unique
keys; `datas[k].1 = k`; aggregated data is known data; a `MinAggregates` entry is non-empty and its
`Participants` is the OR of its aggregates; an individual vote stored under `(v, e)` has target `e`;
each sync-committee buffer holds only items of its own slot (`currentSlot − 1`, `currentSlot`,
`currentSlot + 1`, wrapping). -/
theorem indexes_consistent (ops : List Op) :
    (Pools.run Cfg.fixed (Pools.new Cfg.fixed) ops).1.Consistent :=
  consistent_of_inv (reachable_related ops)

/-! ## 5. the bit functions -/

/-- `AttestationBits.Covers` on valid bitlists decides coverage of the denoted bit lists (and reports a
length mismatch exactly when the bit lists differ in length). -/
theorem covers_spec (a b : Bits) (ha : WellFormed a) (hb : WellFormed b) :
    covers a b = BitSpec.covers (toBools a) (toBools b) := covers_spec' a b ha hb

example : WellFormed [0x07] ∧ WellFormed [0x05] ∧ covers [0x07] [0x05] = .ok true ∧
    covers [0x05] [0x07] = .ok false ∧ covers [0x07] [0x0f] = .err := by decide

/-- Without well-formedness the statement is false: a trailing zero byte has no delimiter bit. -/
theorem covers_spec_needs_wellFormed :
    covers [0x00] [0x01] ≠ BitSpec.covers (toBools [0x00]) (toBools [0x01]) := by decide

/-- `AttestationBits.SingleParticipant` returns the one committee member whose bit is set, reports an
error for none, several, or a committee of the wrong size, and never panics — for every byte string
(the hypothesis `WellFormed a` of the wanted statement is not needed). -/
theorem singleParticipant_spec (a : Bits) (c : List Nat) :
    singleParticipant a c = BitSpec.singleParticipant (toBools a) c := singleParticipant_spec' a c

example : singleParticipant [0x0a] [7, 8, 9] = .ok 8 := by decide

/-- `bitfields.BitIndex` is the position of the highest set bit. -/
theorem bitIndex_spec (v : UInt8) (h : v ≠ 0) : bitIndex v = Nat.log2 v.toNat := bitIndex_eq_log2 v h

example : bitIndex 0x80 = 7 ∧ bitIndex 1 = 0 ∧ bitIndex 0 = 0 := by decide

/-- `GetBit` inside the bitlist is the denoted bit and does not panic. -/
theorem getBit_spec (b : Bits) (i : Nat) (h : i < bitlistLen b) :
    getBit b i = .ok ((toBools b).getD i false) := by
  rw [getBit_of_lt_bitlistLen h]
  simp [toBools, List.getD, h]

/-! ## 6. the defects of the code before the `fix:` commits (`Cfg.old`), each on a concrete witness -/

def d1 : AttData := ⟨1, 0, 0, 1⟩
def d2 : AttData := ⟨1, 0, 0, 2⟩

/-- `NewAttestationPool` left `aggPerValidator` nil: the first aggregate attestation panics. -/
theorem old_first_aggregate_panics :
    (Pools.run Cfg.old (Pools.new Cfg.old) [.att ⟨d1, [0x07], 5⟩ [10, 11]]).2 = [.panic] := by decide

/-- `Search` dereferenced the missing `aggregate` entry of data known only from an individual attestation. -/
theorem old_search_after_single_panics :
    (Pools.run Cfg.old (Pools.new Cfg.old) [.att ⟨d1, [0x05], 5⟩ [10, 11], .search none none]).2
      = [.ok, .panic] := by decide

/-- No length check: an aggregate with a 1-byte bitfield and a 10-member committee reads bit 8 and panics
(with the other defects repaired, to isolate this one). -/
theorem old_short_bitfield_panics :
    (Pools.run { Cfg.fixed with aggLenCheck := false } (Pools.new Cfg.fixed)
      [.att ⟨d1, [0x07], 5⟩ [1, 2, 3, 4, 5, 6, 7, 8, 9, 10]]).2 = [.panic] := by decide

/-- `Participants` was not OR-ed: after aggregates A, B a second B is stored again; `Search` returns 3 items. -/
theorem old_duplicate_aggregate_stored :
    (Pools.run { Cfg.fixed with orParticipants := false } (Pools.new Cfg.fixed)
      [.att ⟨d1, [0x13], 5⟩ [1, 2, 3, 4], .att ⟨d1, [0x1c], 6⟩ [1, 2, 3, 4], .att ⟨d1, [0x1c], 6⟩ [1, 2, 3, 4],
       .search none none]).2
      = [.ok, .ok, .ok, .atts [⟨d1, [0x13], 5⟩, ⟨d1, [0x1c], 6⟩, ⟨d1, [0x1c], 6⟩]] := by decide

/-- the same history on the fixed code: the duplicate is absorbed -/
theorem fixed_duplicate_aggregate_absorbed :
    (Pools.run Cfg.fixed (Pools.new Cfg.fixed)
      [.att ⟨d1, [0x13], 5⟩ [1, 2, 3, 4], .att ⟨d1, [0x1c], 6⟩ [1, 2, 3, 4], .att ⟨d1, [0x1c], 6⟩ [1, 2, 3, 4],
       .search none none]).2
      = [.ok, .ok, .ok, .atts [⟨d1, [0x13], 5⟩, ⟨d1, [0x1c], 6⟩]] := by decide

/-- `NewSyncCommitteePool` left the buffers nil while slot 0 is the "next" slot of a new pool. -/
theorem old_smsg_slot0_panics :
    (Pools.run Cfg.old (Pools.new Cfg.old) [.smsg ⟨0, 1, 1⟩]).2 = [.panic] := by decide

/-- `Select` dereferenced the nil message of a member that has not sent one. -/
theorem old_select_missing_member_panics : select Cfg.old .make 7 [3] = .panic := by decide

/-- hence the full theorem fails for the old code -/
theorem old_not_pool_no_panic :
    ¬ ∀ ops, ∀ o ∈ (Pools.run Cfg.old (Pools.new Cfg.old) ops).2, o ≠ Out.panic := by
  intro h
  exact h [.att ⟨d1, [0x07], 5⟩ [10, 11]] .panic (by decide) rfl

end Zrnt.Proofs.C20
