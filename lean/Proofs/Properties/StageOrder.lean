import Zrnt.Gen.StageOrder
/-!
# Stage lists of `process_epoch` and `process_block`, fork by fork

`Zrnt.Gen.StageOrder.rows` is **regenerated from /repo's source on every run** (extract `stageorder`): the
package-qualified `Process…` calls of every fork's `BeaconStateView.ProcessEpoch` and `ProcessBlock`, in source
order. Below, the specification's stage lists (`process_epoch` / `process_block` + `process_operations` of each
fork's beacon-chain.md, in the specification's order) are written with, for every stage, the fork whose version of
the stage the specification prescribes (e.g. deneb: its own `process_attestation` [EIP-7045],
`process_voluntary_exit` [EIP-7044], `process_registry_updates` [EIP-7514], `process_execution_payload`; capella's
`process_historical_summaries_update`, `process_withdrawals`, `process_bls_to_execution_change`). The theorems
say the code's lists are exactly these: no stage dropped, duplicated, reordered or taken from the wrong fork.
What each stage computes is the subject of the `*_eq` theorems of C01/C02.
-/
namespace Zrnt.Proofs.StageOrder
open Zrnt.Gen.StageOrder

/-- `process_epoch`; `reg` = package of process_registry_updates, `hist` = the historical accumulator stage -/
def epochAltair (reg hist : String) : List String :=
  ["phase0.ProcessEpochJustification", "altair.ProcessInactivityUpdates", "altair.ProcessEpochRewardsAndPenalties",
   reg ++ ".ProcessEpochRegistryUpdates", "phase0.ProcessEpochSlashings", "phase0.ProcessEth1DataReset",
   "phase0.ProcessEffectiveBalanceUpdates", "phase0.ProcessSlashingsReset", "phase0.ProcessRandaoMixesReset",
   hist, "altair.ProcessParticipationFlagUpdates", "altair.ProcessSyncCommitteeUpdates"]

def specEpoch : String → List String
  | "phase0" => ["phase0.ProcessEpochJustification", "phase0.ProcessEpochRewardsAndPenalties",
      "phase0.ProcessEpochRegistryUpdates", "phase0.ProcessEpochSlashings", "phase0.ProcessEth1DataReset",
      "phase0.ProcessEffectiveBalanceUpdates", "phase0.ProcessSlashingsReset", "phase0.ProcessRandaoMixesReset",
      "phase0.ProcessHistoricalRootsUpdate", "phase0.ProcessParticipationRecordUpdates"]
  | "altair" => epochAltair "phase0" "phase0.ProcessHistoricalRootsUpdate"
  | "bellatrix" => epochAltair "phase0" "phase0.ProcessHistoricalRootsUpdate"
  | "capella" => epochAltair "phase0" "capella.ProcessHistoricalSummariesUpdate"
  | "deneb" => epochAltair "deneb" "capella.ProcessHistoricalSummariesUpdate"
  | _ => []

/-- `process_operations`: att / exit = package of process_attestation / process_voluntary_exit; `bls` = capella's
BLS-to-execution changes from capella on -/
def operations (att exit : String) (bls : Bool) : List String :=
  ["phase0.ProcessProposerSlashings", "phase0.ProcessAttesterSlashings", att ++ ".ProcessAttestations",
   "phase0.ProcessDeposits", exit ++ ".ProcessVoluntaryExits"] ++
  (if bls then ["capella.ProcessBLSToExecutionChanges"] else [])

def specBlock : String → List String
  | "phase0" => ["common.ProcessHeader", "phase0.ProcessRandaoReveal", "phase0.ProcessEth1Vote"] ++ operations "phase0" "phase0" false
  | "altair" => ["common.ProcessHeader", "phase0.ProcessRandaoReveal", "phase0.ProcessEth1Vote"] ++ operations "altair" "phase0" false ++
      ["altair.ProcessSyncAggregate"]
  | "bellatrix" => ["common.ProcessHeader", "bellatrix.ProcessExecutionPayload", "phase0.ProcessRandaoReveal", "phase0.ProcessEth1Vote"] ++
      operations "altair" "phase0" false ++ ["altair.ProcessSyncAggregate"]
  | "capella" => ["common.ProcessHeader", "capella.ProcessWithdrawals", "capella.ProcessExecutionPayload", "phase0.ProcessRandaoReveal",
      "phase0.ProcessEth1Vote"] ++ operations "altair" "phase0" true ++ ["altair.ProcessSyncAggregate"]
  | "deneb" => ["common.ProcessHeader", "capella.ProcessWithdrawals", "deneb.ProcessExecutionPayload", "phase0.ProcessRandaoReveal",
      "phase0.ProcessEth1Vote"] ++ operations "deneb" "deneb" true ++ ["altair.ProcessSyncAggregate"]
  | _ => []

def specOf (r : Row) : List String := if r.fn = "ProcessEpoch" then specEpoch r.fork else specBlock r.fork

/-- both transition functions of all five forks are present once and list exactly the specification's stages in
the specification's order, each in the version the specification prescribes for that fork -/
theorem stages_are_the_specs :
    rows.map (fun r => (r.fork, r.fn)) =
      [("phase0", "ProcessEpoch"), ("phase0", "ProcessBlock"), ("altair", "ProcessEpoch"), ("altair", "ProcessBlock"),
       ("bellatrix", "ProcessEpoch"), ("bellatrix", "ProcessBlock"), ("capella", "ProcessEpoch"), ("capella", "ProcessBlock"),
       ("deneb", "ProcessEpoch"), ("deneb", "ProcessBlock")] ∧
    ∀ r ∈ rows, r.found = 1 ∧ r.calls = specOf r := by decide +kernel

/-- `process_epoch` stages only (audited under C02) -/
theorem epoch_stages_are_the_specs :
    ∀ r ∈ rows, r.fn = "ProcessEpoch" → r.found = 1 ∧ r.calls = specEpoch r.fork := by decide +kernel

/-- `process_block` stages only (audited under C01/C03) -/
theorem block_stages_are_the_specs :
    ∀ r ∈ rows, r.fn = "ProcessBlock" → r.found = 1 ∧ r.calls = specBlock r.fork := by decide +kernel

end Zrnt.Proofs.StageOrder
