import Zrnt.Gen.GoFuns
import Zrnt.Beacon.Spec.BlockOps
/-! The validator predicates of zrnt, **regenerated from the Go source** (`IsActive`, `IsSlashable`,
`IsEligibleForActivationQueue`, `IsEligibleForActivation`, `IsFullyWithdrawableValidator`,
`IsPartiallyWithdrawableValidator`), equal the specification's predicates on every validator whose
fields fit in 64 bits. Accessor errors of a validator view are outside the model. -/
namespace Zrnt.Proofs.RegenPreds
open Zrnt Zrnt.Gen Zrnt.Beacon

/-- what zrnt's accessors return for a specification validator -/
def recOf (v : Validator) : GoFuns.ValidatorRec where
  ActivationEligibilityEpoch := UInt64.ofNat v.activation_eligibility_epoch
  ActivationEpoch := UInt64.ofNat v.activation_epoch
  EffectiveBalance := UInt64.ofNat v.effective_balance
  ExitEpoch := UInt64.ofNat v.exit_epoch
  Slashed := v.slashed
  WithdrawableEpoch := UInt64.ofNat v.withdrawable_epoch
  HasEth1WithdrawalCredential := Beacon.Block.has_eth1_withdrawal_credential v

/-- every numeric field is a `uint64` -/
def Fits (v : Validator) : Prop :=
  v.activation_eligibility_epoch < 2 ^ 64 ∧ v.activation_epoch < 2 ^ 64 ∧ v.effective_balance < 2 ^ 64 ∧
  v.exit_epoch < 2 ^ 64 ∧ v.withdrawable_epoch < 2 ^ 64

theorem toNat_ofNat {n : Nat} (h : n < 2 ^ 64) : (UInt64.ofNat n).toNat = n := by
  simp [Nat.mod_eq_of_lt h]

theorem lt_iff {a b : Nat} (ha : a < 2 ^ 64) (hb : b < 2 ^ 64) : UInt64.ofNat a < UInt64.ofNat b ↔ a < b := by
  rw [UInt64.lt_iff_toNat_lt, toNat_ofNat ha, toNat_ofNat hb]

theorem le_iff {a b : Nat} (ha : a < 2 ^ 64) (hb : b < 2 ^ 64) : UInt64.ofNat a ≤ UInt64.ofNat b ↔ a ≤ b := by
  rw [UInt64.le_iff_toNat_le, toNat_ofNat ha, toNat_ofNat hb]

theorem eq_iff {a b : Nat} (ha : a < 2 ^ 64) (hb : b < 2 ^ 64) : UInt64.ofNat a = UInt64.ofNat b ↔ a = b := by
  constructor
  · intro h
    have := congrArg UInt64.toNat h
    rwa [toNat_ofNat ha, toNat_ofNat hb] at this
  · intro h; rw [h]

theorem isActive_eq (v : Validator) (e : Nat) (hv : Fits v) (he : e < 2 ^ 64) :
    GoFuns.IsActive (recOf v) (UInt64.ofNat e) = .ok (Beacon.Spec.is_active_validator v e) := by
  obtain ⟨_, h2, _, h4, _⟩ := hv
  unfold GoFuns.IsActive Beacon.Spec.is_active_validator recOf
  simp only [gt_iff_lt, ge_iff_le, lt_iff he h2, le_iff h4 he]
  by_cases h1 : e < v.activation_epoch
  · have : ¬ v.activation_epoch ≤ e := by omega
    simp [h1, this]
  · have h1' : v.activation_epoch ≤ e := by omega
    by_cases h3 : v.exit_epoch ≤ e
    · have : ¬ e < v.exit_epoch := by omega
      simp [h1, h1', h3, this]
    · have : e < v.exit_epoch := by omega
      simp [h1, h1', h3, this]

theorem isSlashable_eq (v : Validator) (e : Nat) (hv : Fits v) (he : e < 2 ^ 64) :
    GoFuns.IsSlashable (recOf v) (UInt64.ofNat e) = .ok (Beacon.Spec.is_slashable_validator v e) := by
  obtain ⟨_, h2, _, _, h5⟩ := hv
  unfold GoFuns.IsSlashable Beacon.Spec.is_slashable_validator recOf
  simp only [gt_iff_lt, lt_iff he h2, le_iff h5 he]
  cases hs : v.slashed
  · by_cases h1 : e < v.activation_epoch
    · have : ¬ v.activation_epoch ≤ e := by omega
      simp [h1, this]
    · have h1' : v.activation_epoch ≤ e := by omega
      by_cases h3 : v.withdrawable_epoch ≤ e
      · have : ¬ e < v.withdrawable_epoch := by omega
        simp [h1, h1', h3, this]
      · have : e < v.withdrawable_epoch := by omega
        simp [h1, h1', h3, this]
  · simp

theorem beq_iff {a b : Nat} (ha : a < 2 ^ 64) (hb : b < 2 ^ 64) : (UInt64.ofNat a == UInt64.ofNat b) = (a == b) := by
  rw [Bool.eq_iff_iff, beq_iff_eq, beq_iff_eq]; exact eq_iff ha hb

theorem decide_le {a b : Nat} (ha : a < 2 ^ 64) (hb : b < 2 ^ 64) :
    decide (UInt64.ofNat a ≤ UInt64.ofNat b) = decide (a ≤ b) := by
  simp only [le_iff ha hb]

theorem decide_lt {a b : Nat} (ha : a < 2 ^ 64) (hb : b < 2 ^ 64) :
    decide (UInt64.ofNat a < UInt64.ofNat b) = decide (a < b) := by
  simp only [lt_iff ha hb]

theorem far : (18446744073709551615 : UInt64) = UInt64.ofNat Beacon.Spec.FAR_FUTURE_EPOCH := by decide
theorem far_lt : Beacon.Spec.FAR_FUTURE_EPOCH < 2 ^ 64 := by decide

theorem isEligibleForActivationQueue_eq (spec : GoFuns.Spec) (cfg : Config) (v : Validator) (hv : Fits v)
    (hc : cfg.MAX_EFFECTIVE_BALANCE < 2 ^ 64) (hs : spec.MAX_EFFECTIVE_BALANCE = UInt64.ofNat cfg.MAX_EFFECTIVE_BALANCE) :
    GoFuns.IsEligibleForActivationQueue spec (recOf v) = .ok (Beacon.Spec.is_eligible_for_activation_queue cfg v) := by
  obtain ⟨h1, _, h3, _, _⟩ := hv
  unfold GoFuns.IsEligibleForActivationQueue Beacon.Spec.is_eligible_for_activation_queue recOf
  simp only [hs, far, beq_iff h1 far_lt, beq_iff h3 hc]
  rfl

theorem isEligibleForActivation_eq (s : State) (v : Validator) (hv : Fits v)
    (hf : s.finalized_checkpoint.epoch < 2 ^ 64) :
    GoFuns.IsEligibleForActivation (recOf v) (UInt64.ofNat s.finalized_checkpoint.epoch) =
      .ok (Beacon.Spec.is_eligible_for_activation s v) := by
  obtain ⟨h1, h2, _, _, _⟩ := hv
  unfold GoFuns.IsEligibleForActivation Beacon.Spec.is_eligible_for_activation recOf
  simp only [far, beq_iff h2 far_lt, decide_le h1 hf]
  rfl

theorem isFullyWithdrawable_eq (v : Validator) (balance e : Nat) (hv : Fits v)
    (hb : balance < 2 ^ 64) (he : e < 2 ^ 64) :
    GoFuns.IsFullyWithdrawableValidator (recOf v) (UInt64.ofNat balance) (UInt64.ofNat e) =
      Beacon.Block.is_fully_withdrawable_validator v balance e := by
  obtain ⟨_, _, _, _, h5⟩ := hv
  unfold GoFuns.IsFullyWithdrawableValidator Beacon.Block.is_fully_withdrawable_validator recOf
  have h0 : (0 : UInt64) = UInt64.ofNat 0 := rfl
  simp only [gt_iff_lt, h0, decide_le h5 he, decide_lt (by decide : (0 : Nat) < 2 ^ 64) hb]

theorem isPartiallyWithdrawable_eq (spec : GoFuns.Spec) (cfg : Config) (v : Validator) (balance : Nat) (e : UInt64)
    (hv : Fits v) (hb : balance < 2 ^ 64)
    (hc : cfg.MAX_EFFECTIVE_BALANCE < 2 ^ 64) (hs : spec.MAX_EFFECTIVE_BALANCE = UInt64.ofNat cfg.MAX_EFFECTIVE_BALANCE) :
    GoFuns.IsPartiallyWithdrawableValidator spec (recOf v) (UInt64.ofNat balance) e =
      Beacon.Block.is_partially_withdrawable_validator cfg v balance := by
  obtain ⟨_, _, h3, _, _⟩ := hv
  unfold GoFuns.IsPartiallyWithdrawableValidator Beacon.Block.is_partially_withdrawable_validator recOf
  simp only [hs, gt_iff_lt, decide_lt hc hb, beq_iff h3 hc]

/-- non-vacuity: a concrete validator fits and is active at epoch 5 -/
example : Fits { (default : Validator) with activation_epoch := 2, exit_epoch := 9 } ∧
    GoFuns.IsActive (recOf { (default : Validator) with activation_epoch := 2, exit_epoch := 9 }) 5 = .ok true := by
  constructor
  · simp [Fits]; decide
  · decide

end Zrnt.Proofs.RegenPreds
