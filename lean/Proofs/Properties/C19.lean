import Proofs.Lemmas.Isqrt
import Proofs.Lemmas.IsqrtFrom
import Zrnt.Util.Prysm
import Zrnt.Util.Merkle
import Zrnt.Util.MathSpec
import Proofs.Lemmas.Merkle
import Proofs.Lemmas.Pow2
/-!
# C19 — numeric, time and Merkle helpers are exact over their whole domain

Theorems about the functions **regenerated from /repo's source on every run** (`Zrnt.Gen.GoFuns`,
tie R-fun) and about the hand model of `VerifyMerkleBranch` (tie H). All quantifiers range over the
full `UInt64` domain; no `bv_decide`, no `native_decide`.
-/
namespace Zrnt.Proofs.C19
open Zrnt Zrnt.Gen.GoFuns Zrnt.Util Zrnt.Util.Merkle Zrnt.Proofs

/-- `IntegerSquareroot` returns the floor of the real square root for **every** 64-bit input
(including 2^64−1), never panics, and its loop terminates: any fuel above `n` suffices. -/
theorem isqrt_floor (n : UInt64) (fuel : Nat) (hf : n.toNat + 1 ≤ fuel) :
    ∃ r, IntegerSquareroot fuel n = .ok r ∧
      r.toNat * r.toNat ≤ n.toNat ∧ n.toNat < (r.toNat + 1) * (r.toNat + 1) := by
  unfold IntegerSquareroot
  by_cases hmax : n = ~~~ 0
  · subst hmax
    refine ⟨4294967295, by simp, by decide, by decide⟩
  · have hne : (n == ~~~ 0) = false := by simpa using hmax
    have hlt : n.toNat + 1 < 2 ^ 64 := by
      have h1 : n.toNat < 2 ^ 64 := n.toNat_lt
      have h2 : n.toNat ≠ 2 ^ 64 - 1 := by
        intro h; apply hmax; apply UInt64.toNat_inj.mp; rw [h]; decide
      omega
    simp only [hne]
    by_cases h0 : n = 0
    · subst h0
      refine ⟨0, ?_, by decide, by decide⟩
      cases fuel with
      | zero => simp at hf
      | succ f => simp [IntegerSquareroot.loop1, Res.shr]
    · have hpos : 0 < n.toNat := by
        rcases Nat.eq_zero_or_pos n.toNat with h | h
        · exact absurd (UInt64.toNat_inj.mp (by rw [h]; rfl)) h0
        · exact h
      have hinv : Isqrt.Inv n n (Res.shr (n + 1) 1) := by
        refine ⟨hpos, Nat.le_refl _, ?_, by nlinarith⟩
        have : (1 : UInt64) < 64 := by decide
        simp only [Res.shr, this, ite_true]
        rw [UInt64.toNat_shiftRight, UInt64.toNat_add]
        have h1 : (1 : UInt64).toNat % 64 = 1 := by decide
        have h2 : (1 : UInt64).toNat = 1 := by decide
        rw [h1, h2, Nat.shiftRight_eq_div_pow, Nat.mod_eq_of_lt hlt, Nat.div_self hpos]
      obtain ⟨r, y', hr, h1, h2⟩ := Isqrt.loop_correct n hlt fuel n _ hinv (by omega)
      exact ⟨r, by simp [hr], h1, h2⟩

/-- non-vacuity / the formerly panicking input -/
example : IntegerSquareroot 100 (2 ^ 64 - 1) = .ok 4294967295 := by decide +kernel

theorem maxU64_spec (a b : UInt64) : (MaxU64 a b).toNat = Nat.max a.toNat b.toNat := by
  unfold MaxU64
  by_cases h : a > b
  · have : b.toNat < a.toNat := UInt64.lt_iff_toNat_lt.mp h
    simp [h]; omega
  · have : ¬ b.toNat < a.toNat := fun h' => h (UInt64.lt_iff_toNat_lt.mpr h')
    simp [h]; omega

theorem minU64_spec (a b : UInt64) : (MinU64 a b).toNat = Nat.min a.toNat b.toNat := by
  unfold MinU64
  by_cases h : a < b
  · have : a.toNat < b.toNat := UInt64.lt_iff_toNat_lt.mp h
    simp [h]; omega
  · have : ¬ a.toNat < b.toNat := fun h' => h (UInt64.lt_iff_toNat_lt.mpr h')
    simp [h]; omega

/-- `SlotToEpoch` is exact floor division; it panics only for `SLOTS_PER_EPOCH = 0` (outside the domain). -/
theorem slotToEpoch_spec (spec : Spec) (s : UInt64) (h : spec.SLOTS_PER_EPOCH ≠ 0) :
    ∃ e, SlotToEpoch spec s = .ok e ∧ e.toNat = Spec.slotToEpoch spec.SLOTS_PER_EPOCH.toNat s.toNat := by
  refine ⟨s / spec.SLOTS_PER_EPOCH, ?_, ?_⟩
  · simp [SlotToEpoch, Res.udiv, h]
  · simp [Spec.slotToEpoch, UInt64.toNat_div]

theorem timeToSlot_spec (spec : Spec) (t g : UInt64) (h : spec.SECONDS_PER_SLOT ≠ 0) :
    ∃ s, TimeToSlot spec t g = .ok s ∧
      s.toNat = Spec.timeToSlot spec.SECONDS_PER_SLOT.toNat t.toNat g.toNat := by
  unfold TimeToSlot Spec.timeToSlot
  by_cases hlt : t < g
  · have : t.toNat < g.toNat := UInt64.lt_iff_toNat_lt.mp hlt
    exact ⟨0, by simp [hlt], by simp [this]⟩
  · have hge : ¬ t.toNat < g.toNat := fun h' => hlt (UInt64.lt_iff_toNat_lt.mpr h')
    refine ⟨(t - g) / spec.SECONDS_PER_SLOT, by simp [hlt, Res.udiv, h], ?_⟩
    have hsub : (t - g).toNat = t.toNat - g.toNat := by
      rw [UInt64.toNat_sub]
      have := t.toNat_lt; have := g.toNat_lt
      omega
    simp [hge, UInt64.toNat_div, hsub]

/-- `TimeAtSlot` returns the exact timestamp iff it is representable in 64 bits, and the error
otherwise: never a wrapped value. -/
theorem timeAtSlot_spec (spec : Spec) (slot g : UInt64) (h : spec.SECONDS_PER_SLOT ≠ 0) :
    match Spec.timeAtSlot spec.SECONDS_PER_SLOT.toNat slot.toNat g.toNat with
    | some v => ∃ t, TimeAtSlot spec slot g = .ok t ∧ t.toNat = v
    | none => TimeAtSlot spec slot g = .err := by
  have hs : 0 < spec.SECONDS_PER_SLOT.toNat := by
    rcases Nat.eq_zero_or_pos spec.SECONDS_PER_SLOT.toNat with h0 | h0
    · exact absurd (UInt64.toNat_inj.mp (by rw [h0]; rfl)) h
    · exact h0
  have hmax : ((~~~ (0 : UInt64)) - g).toNat = 2 ^ 64 - 1 - g.toNat := by
    rw [UInt64.toNat_sub]
    have : (~~~ (0 : UInt64)).toNat = 2 ^ 64 - 1 := by decide
    rw [this]; have := g.toNat_lt; omega
  have hdiv : (((~~~ (0 : UInt64)) - g) / spec.SECONDS_PER_SLOT).toNat =
      (2 ^ 64 - 1 - g.toNat) / spec.SECONDS_PER_SLOT.toNat := by rw [UInt64.toNat_div, hmax]
  have hU : Spec.U64 = 2 ^ 64 := rfl
  have hdef : TimeAtSlot spec slot g =
      if slot > ((~~~ 0) - g) / spec.SECONDS_PER_SLOT then Res.err
      else Res.ok (slot * spec.SECONDS_PER_SLOT + g) := by
    simp only [TimeAtSlot, Res.udiv, h, if_false, bind, Res.bind, decide_eq_true_eq]
    rfl
  rw [hdef]
  unfold Spec.timeAtSlot
  by_cases hgt : slot > ((~~~ 0) - g) / spec.SECONDS_PER_SLOT
  · have hgt' : (2 ^ 64 - 1 - g.toNat) / spec.SECONDS_PER_SLOT.toNat < slot.toNat := by
      have := UInt64.lt_iff_toNat_lt.mp hgt
      rwa [hdiv] at this
    have hover : ¬ slot.toNat * spec.SECONDS_PER_SLOT.toNat + g.toNat < Spec.U64 := by
      intro hlt
      rw [hU] at hlt
      have : slot.toNat ≤ (2 ^ 64 - 1 - g.toNat) / spec.SECONDS_PER_SLOT.toNat :=
        (Nat.le_div_iff_mul_le hs).mpr (by omega)
      omega
    rw [if_pos hgt]
    simp only [hover, ↓reduceIte]
  · have hle' : slot.toNat ≤ (2 ^ 64 - 1 - g.toNat) / spec.SECONDS_PER_SLOT.toNat := by
      have : ¬ _ := fun h' => hgt (UInt64.lt_iff_toNat_lt.mpr h')
      rw [hdiv] at this
      omega
    have hfit : slot.toNat * spec.SECONDS_PER_SLOT.toNat + g.toNat < Spec.U64 := by
      have := (Nat.le_div_iff_mul_le hs).mp hle'
      have := g.toNat_lt
      rw [hU]; omega
    rw [if_neg hgt]
    simp only [hfit, ↓reduceIte]
    refine ⟨_, rfl, ?_⟩
    rw [hU] at hfit
    rw [UInt64.toNat_add, UInt64.toNat_mul]
    have : slot.toNat * spec.SECONDS_PER_SLOT.toNat < 2 ^ 64 := by omega
    rw [Nat.mod_eq_of_lt this, Nat.mod_eq_of_lt hfit]



theorem epochStartSlot_spec (spec : Spec) (e : UInt64) (h : spec.SLOTS_PER_EPOCH ≠ 0) :
    match Spec.epochStartSlot spec.SLOTS_PER_EPOCH.toNat e.toNat with
    | some v => ∃ s, EpochStartSlot spec e = .ok s ∧ s.toNat = v
    | none => EpochStartSlot spec e = .err := by
  have hs : 0 < spec.SLOTS_PER_EPOCH.toNat := by
    rcases Nat.eq_zero_or_pos spec.SLOTS_PER_EPOCH.toNat with h0 | h0
    · exact absurd (UInt64.toNat_inj.mp (by rw [h0]; rfl)) h
    · exact h0
  have hdef : EpochStartSlot spec e =
      if e != (e * spec.SLOTS_PER_EPOCH) / spec.SLOTS_PER_EPOCH then Res.err
      else Res.ok (e * spec.SLOTS_PER_EPOCH) := by
    simp only [EpochStartSlot, SlotToEpoch, Res.udiv, h, if_false, bind, Res.bind]
    rfl
  rw [hdef]
  unfold Spec.epochStartSlot
  have hU : Spec.U64 = 2 ^ 64 := rfl
  have hmul : (e * spec.SLOTS_PER_EPOCH).toNat = (e.toNat * spec.SLOTS_PER_EPOCH.toNat) % 2 ^ 64 :=
    UInt64.toNat_mul _ _
  by_cases hfit : e.toNat * spec.SLOTS_PER_EPOCH.toNat < Spec.U64
  · simp only [hfit, ↓reduceIte]
    rw [hU] at hfit
    have heq : (e * spec.SLOTS_PER_EPOCH) / spec.SLOTS_PER_EPOCH = e := by
      apply UInt64.toNat_inj.mp
      rw [UInt64.toNat_div, hmul, Nat.mod_eq_of_lt hfit, Nat.mul_div_cancel _ hs]
    simp only [heq, bne_self_eq_false, Bool.false_eq_true, ↓reduceIte]
    exact ⟨_, rfl, by rw [hmul, Nat.mod_eq_of_lt hfit]⟩
  · simp only [hfit, ↓reduceIte]
    rw [hU] at hfit
    have hne : (e * spec.SLOTS_PER_EPOCH) / spec.SLOTS_PER_EPOCH ≠ e := by
      intro heq
      have := congrArg UInt64.toNat heq
      rw [UInt64.toNat_div, hmul] at this
      have h1 : (e.toNat * spec.SLOTS_PER_EPOCH.toNat) % 2 ^ 64 < 2 ^ 64 := Nat.mod_lt _ (by decide)
      have h2 : e.toNat * spec.SLOTS_PER_EPOCH.toNat ≤ (e.toNat * spec.SLOTS_PER_EPOCH.toNat) % 2 ^ 64 := by
        have := Nat.div_mul_le_self ((e.toNat * spec.SLOTS_PER_EPOCH.toNat) % 2 ^ 64) spec.SLOTS_PER_EPOCH.toNat
        rw [‹_ / _ = e.toNat›] at this
        exact this
      omega
    have : (e != (e * spec.SLOTS_PER_EPOCH) / spec.SLOTS_PER_EPOCH) = true := by
      simp only [bne_iff_ne, ne_eq]; exact fun h => hne h.symm
    simp only [this, ↓reduceIte]



theorem ne_zero_pos (x : UInt64) (h : x ≠ 0) : 0 < x.toNat := by
  rcases Nat.eq_zero_or_pos x.toNat with h0 | h0
  · exact absurd (UInt64.toNat_inj.mp (by rw [h0]; rfl)) h
  · exact h0

theorem churn_spec (spec : Spec) (n : UInt64) (h : spec.CHURN_LIMIT_QUOTIENT ≠ 0) :
    ∃ c, GetChurnLimit spec n = .ok c ∧
      c.toNat = Spec.churnLimit spec.MIN_PER_EPOCH_CHURN_LIMIT.toNat spec.CHURN_LIMIT_QUOTIENT.toNat n.toNat := by
  refine ⟨MaxU64 spec.MIN_PER_EPOCH_CHURN_LIMIT (n / spec.CHURN_LIMIT_QUOTIENT), ?_, ?_⟩
  · simp [GetChurnLimit, Res.udiv, h]
  · rw [maxU64_spec, UInt64.toNat_div]; rfl

theorem committeeCount_spec (spec : Spec) (n : UInt64)
    (h1 : spec.SLOTS_PER_EPOCH ≠ 0) (h2 : spec.TARGET_COMMITTEE_SIZE ≠ 0) :
    ∃ c, CommitteeCount spec n = .ok c ∧
      c.toNat = Spec.committeeCount spec.SLOTS_PER_EPOCH.toNat spec.TARGET_COMMITTEE_SIZE.toNat
        spec.MAX_COMMITTEES_PER_SLOT.toNat n.toNat := by
  unfold CommitteeCount Spec.committeeCount
  simp only [Res.udiv, h1, h2, if_false, bind, Res.bind]
  have hqn : (n / spec.SLOTS_PER_EPOCH / spec.TARGET_COMMITTEE_SIZE).toNat =
      n.toNat / spec.SLOTS_PER_EPOCH.toNat / spec.TARGET_COMMITTEE_SIZE.toNat := by
    rw [UInt64.toNat_div, UInt64.toNat_div]
  generalize n / spec.SLOTS_PER_EPOCH / spec.TARGET_COMMITTEE_SIZE = q at hqn ⊢
  generalize n.toNat / spec.SLOTS_PER_EPOCH.toNat / spec.TARGET_COMMITTEE_SIZE.toNat = qn at hqn ⊢
  have h1' : (1 : UInt64).toNat = 1 := rfl
  by_cases hlt : spec.MAX_COMMITTEES_PER_SLOT < q
  · have hlt' := UInt64.lt_iff_toNat_lt.mp hlt
    simp only [hlt, decide_true, ↓reduceIte]
    by_cases hz : spec.MAX_COMMITTEES_PER_SLOT = 0
    · refine ⟨1, by simp [hz], ?_⟩
      have : spec.MAX_COMMITTEES_PER_SLOT.toNat = 0 := by rw [hz]; rfl
      omega
    · have hp := ne_zero_pos _ hz
      refine ⟨spec.MAX_COMMITTEES_PER_SLOT, by simp [hz], ?_⟩
      omega
  · have hge : q.toNat ≤ spec.MAX_COMMITTEES_PER_SLOT.toNat :=
      Nat.le_of_not_lt (fun h' => hlt (UInt64.lt_iff_toNat_lt.mpr h'))
    simp only [hlt, decide_false, Bool.false_eq_true, ↓reduceIte]
    by_cases hz : q = 0
    · refine ⟨1, by simp [hz], ?_⟩
      have : q.toNat = 0 := by rw [hz]; rfl
      omega
    · have hp := ne_zero_pos _ hz
      refine ⟨q, by simp [hz], ?_⟩
      omega

/-- p2p slot-window check: accepted iff `slot+span` does not overflow, `slot+span ≥ minSlot`, `slot ≤ maxSlot`. -/
theorem checkSlotSpan_spec (slotAfter : Int → UInt64) (slot span : UInt64) :
    CheckSlotSpan slotAfter slot span =
      if slot.toNat + span.toNat < Spec.U64 ∧ (slotAfter (-500)).toNat ≤ slot.toNat + span.toNat ∧
          slot.toNat ≤ (slotAfter 500).toNat then Res.ok () else Res.err := by
  have hU : Spec.U64 = 2 ^ 64 := rfl
  have hadd : (slot + span).toNat = (slot.toNat + span.toNat) % 2 ^ 64 := UInt64.toNat_add _ _
  have hs := slot.toNat_lt
  have hp := span.toNat_lt
  have e1 : (slot + span < slot) ↔ ¬ (slot.toNat + span.toNat < Spec.U64) := by
    rw [UInt64.lt_iff_toNat_lt, hadd, hU]
    constructor
    · intro h hlt; rw [Nat.mod_eq_of_lt hlt] at h; omega
    · intro h
      have hge : 2 ^ 64 ≤ slot.toNat + span.toNat := Nat.le_of_not_lt h
      rw [Nat.mod_eq_sub_mod hge, Nat.mod_eq_of_lt (by omega)]; omega
  have e2 : slot.toNat + span.toNat < Spec.U64 →
      ((slot + span < slotAfter (-500)) ↔ ¬ ((slotAfter (-500)).toNat ≤ slot.toNat + span.toNat)) := by
    intro hfit; rw [hU] at hfit
    rw [UInt64.lt_iff_toNat_lt, hadd, Nat.mod_eq_of_lt hfit]; omega
  have e3 : (slot > slotAfter 500) ↔ ¬ (slot.toNat ≤ (slotAfter 500).toNat) := by
    show slotAfter 500 < slot ↔ _
    rw [UInt64.lt_iff_toNat_lt]; omega
  unfold CheckSlotSpan
  by_cases c1 : slot.toNat + span.toNat < Spec.U64
  · have n1 : ¬ (slot + span < slot) := fun h => (e1.mp h) c1
    by_cases c2 : (slotAfter (-500)).toNat ≤ slot.toNat + span.toNat
    · have n2 : ¬ (slot + span < slotAfter (-500)) := fun h => ((e2 c1).mp h) c2
      by_cases c3 : slot.toNat ≤ (slotAfter 500).toNat
      · have n3 : ¬ (slot > slotAfter 500) := fun h => (e3.mp h) c3
        simp only [n1, n2, n3, decide_false, Bool.false_eq_true, ↓reduceIte]
        rw [if_pos ⟨c1, c2, c3⟩]; rfl
      · have p3 : slot > slotAfter 500 := e3.mpr c3
        simp only [n1, n2, p3, decide_false, decide_true, Bool.false_eq_true, ↓reduceIte]
        rw [if_neg (fun h => c3 h.2.2)]
    · have p2 : slot + span < slotAfter (-500) := (e2 c1).mpr c2
      simp only [n1, p2, decide_false, decide_true, Bool.false_eq_true, ↓reduceIte]
      rw [if_neg (fun h => c2 h.2.1)]
  · have p1 : slot + span < slot := e1.mpr c1
    simp only [p1, decide_true, ↓reduceIte]
    rw [if_neg (fun h => c1 h.1)]

theorem activationExitEpoch_spec (spec : Spec) (e : UInt64)
    (h : Spec.activationExitEpoch spec.MAX_SEED_LOOKAHEAD.toNat e.toNat < 2 ^ 64) :
    (ComputeActivationExitEpoch spec e).toNat = Spec.activationExitEpoch spec.MAX_SEED_LOOKAHEAD.toNat e.toNat := by
  unfold ComputeActivationExitEpoch Spec.activationExitEpoch at *
  rw [UInt64.toNat_add, UInt64.toNat_add]
  have : (1 : UInt64).toNat = 1 := rfl
  rw [this]; omega

theorem slotPrevious_spec (s : UInt64) : (SlotPrevious s).toNat = s.toNat - 1 := by
  unfold SlotPrevious
  by_cases h : s = 0
  · subst h; simp
  · have hp := ne_zero_pos _ h
    have : (s == 0) = false := by simpa using h
    simp only [this, Bool.false_eq_true, ↓reduceIte]
    rw [UInt64.toNat_sub]; have := s.toNat_lt; have h1 : (1 : UInt64).toNat = 1 := rfl; rw [h1]; omega

theorem epochPrevious_spec (e : UInt64) : (EpochPrevious e).toNat = e.toNat - 1 := slotPrevious_spec e


/-- `IsPowerOfTwo n` holds exactly for the 64 powers of two. -/
theorem isPow2_iff (n : UInt64) : IsPowerOfTwo n = true ↔ ∃ k, k < 64 ∧ n.toNat = 2 ^ k := by
  unfold IsPowerOfTwo
  by_cases h0 : n = 0
  · subst h0
    constructor
    · intro h; simp at h
    · rintro ⟨k, _, hk⟩
      have : (0 : UInt64).toNat = 0 := rfl
      rw [this] at hk
      have := Nat.two_pow_pos k
      omega
  · have hpos := ne_zero_pos n h0
    have hgt : n > 0 := UInt64.lt_iff_toNat_lt.mpr (by simpa using hpos)
    have hsub : (n - 1).toNat = n.toNat - 1 := by
      rw [UInt64.toNat_sub]; have := n.toNat_lt; have h1 : (1 : UInt64).toNat = 1 := rfl; rw [h1]; omega
    have hand : ((n &&& (n - 1)) == 0) = true ↔ n.toNat &&& (n.toNat - 1) = 0 := by
      rw [beq_iff_eq, ← UInt64.toNat_inj, UInt64.toNat_and, hsub]; rfl
    simp only [hgt, decide_true, Bool.true_and]
    rw [hand, Pow2.and_pred_eq_zero_iff _ hpos]
    constructor
    · intro h
      refine ⟨n.toNat.log2, ?_, h⟩
      exact (Nat.log2_lt (by omega)).mpr n.toNat_lt
    · rintro ⟨k, _, hk⟩
      have : n.toNat.log2 = k := by rw [hk]; exact Nat.log2_two_pow
      rw [this]; exact hk


/-- `r` is the least power of two that is `≥ x` -/
def IsLeastPow2 (r x : Nat) : Prop := (∃ k, r = 2 ^ k) ∧ x ≤ r ∧ ∀ j, x ≤ 2 ^ j → r ≤ 2 ^ j

theorem nextPow2_spec (x : UInt64) :
    (x.toNat = 0 → (NextPowerOfTwo x).toNat = 0) ∧
    (1 ≤ x.toNat → x.toNat ≤ 2 ^ 63 → IsLeastPow2 (NextPowerOfTwo x).toNat x.toNat) ∧
    (2 ^ 63 < x.toNat → (NextPowerOfTwo x).toNat = 0) := by
  have hx := x.toNat_lt
  have h1 : (1 : UInt64).toNat = 1 := rfl
  rw [Pow2.nextPow2_toNat]
  refine ⟨?_, ?_, ?_⟩
  · intro h0
    have : x = 0 := UInt64.toNat_inj.mp (by rw [h0]; rfl)
    subst this
    decide
  · intro hge hle
    have hsub : (x - 1).toNat = x.toNat - 1 := by rw [UInt64.toNat_sub, h1]; omega
    rw [hsub]
    by_cases hv : x.toNat - 1 = 0
    · have hx1 : x.toNat = 1 := by omega
      rw [hv, Pow2.smear_zero, hx1]
      refine ⟨⟨0, by decide⟩, by decide, ?_⟩
      intro j _; exact Nat.two_pow_pos j
    · have hvpos : 0 < x.toNat - 1 := by omega
      have hne : x.toNat - 1 ≠ 0 := hv
      rw [Pow2.smear_pos _ hvpos (by omega)]
      have hL := Nat.log2_self_le hne
      have hU := @Nat.lt_log2_self (x.toNat - 1)
      have hL63 : (x.toNat - 1).log2 < 63 := (Nat.log2_lt hne).mpr (by omega)
      have hpos := Nat.two_pow_pos ((x.toNat - 1).log2 + 1)
      have hfit : 2 ^ ((x.toNat - 1).log2 + 1) < 2 ^ 64 :=
        Nat.pow_lt_pow_right (by decide) (by omega)
      have heq : (2 ^ ((x.toNat - 1).log2 + 1) - 1 + 1) % 2 ^ 64 = 2 ^ ((x.toNat - 1).log2 + 1) := by
        rw [Nat.sub_add_cancel hpos, Nat.mod_eq_of_lt hfit]
      rw [heq]
      refine ⟨⟨_, rfl⟩, by omega, ?_⟩
      intro j hj
      have : 2 ^ (x.toNat - 1).log2 < 2 ^ j := by omega
      have hlt : (x.toNat - 1).log2 < j := (Nat.pow_lt_pow_iff_right (by decide)).mp this
      exact Nat.pow_le_pow_right (by decide) hlt
  · intro hgt
    have hsub : (x - 1).toNat = x.toNat - 1 := by rw [UInt64.toNat_sub, h1]; omega
    rw [hsub]
    have hne : x.toNat - 1 ≠ 0 := by omega
    rw [Pow2.smear_pos _ (by omega) (by omega)]
    have hlog : (x.toNat - 1).log2 = 63 := by
      have h1 : (x.toNat - 1).log2 < 64 := (Nat.log2_lt hne).mpr (by omega)
      have h2 : ¬ (x.toNat - 1).log2 < 63 := by
        intro h; have := (Nat.log2_lt hne).mp h; omega
      omega
    rw [hlog]; decide

section merkle
variable {α : Type} [DecidableEq α]
/-- `VerifyMerkleBranch` accepts exactly the branches that hash to `root` at `index`/`depth`
(for depth within the branch: the documented domain). -/
theorem merkle_eq_spec (H : α → α → α) (leaf : α) (branch : List α) (depth index : Nat) (root : α)
    (h : depth ≤ branch.length) :
    verifyMerkleBranch H leaf branch depth index root =
      .ok (decide (specRoot H leaf index (branch.take depth) = root)) := by
  unfold verifyMerkleBranch
  rw [Merkle.fold_eq_spec H branch index depth 0 leaf (by omega)]
  simp

/-- no panic iff `depth ≤ len(branch)` -/
theorem merkle_domain (H : α → α → α) (leaf : α) (branch : List α) (depth index : Nat) (root : α) :
    verifyMerkleBranch H leaf branch depth index root = .panic ↔ branch.length < depth := by
  constructor
  · intro hp
    rcases Nat.lt_or_ge branch.length depth with h | h
    · exact h
    · rw [merkle_eq_spec H leaf branch depth index root h] at hp; cases hp
  · intro h
    unfold verifyMerkleBranch
    rw [Merkle.fold_panic H branch index depth 0 leaf (by omega) (by omega)]

/-- soundness: two different leaves that lead to the same root along the same index and siblings
yield an explicit collision of `H`. -/
theorem merkle_sound (H : α → α → α) (branch : List α) :
    ∀ (l1 l2 : α) (index : Nat), l1 ≠ l2 →
      specRoot H l1 index branch = specRoot H l2 index branch →
      ∃ a b c d, (a, b) ≠ (c, d) ∧ H a b = H c d := by
  induction branch with
  | nil => intro l1 l2 _ hne h; exact absurd h hne
  | cons sib rest ih =>
    intro l1 l2 index hne h
    simp only [specRoot] at h
    by_cases hb : index % 2 = 1
    · simp only [hb, if_true] at h
      by_cases heq : H sib l1 = H sib l2
      · exact ⟨sib, l1, sib, l2, by simp [hne], heq⟩
      · exact ih _ _ _ heq h
    · simp only [hb, if_false] at h
      by_cases heq : H l1 sib = H l2 sib
      · exact ⟨l1, sib, l2, sib, by simp [hne], heq⟩
      · exact ih _ _ _ heq h


/-- completeness: the (leaf, siblings) read off a perfect Merkle tree of depth `d` at `index` are
accepted by `VerifyMerkleBranch` against that tree's root. -/
theorem merkle_complete {α : Type} [DecidableEq α] (H : α → α → α) (t : Merkle.Tree α) (d index : Nat)
    (v : α) (sibs : List α) (h : Merkle.Tree.proof H t d index = some (v, sibs)) :
    Merkle.verifyMerkleBranch H v sibs d index (t.root H) = .ok true := by
  have hl := Zrnt.Proofs.Merkle.proof_length H t d index v sibs h
  rw [merkle_eq_spec H v sibs d index _ (by omega), ← hl, List.take_length,
    Zrnt.Proofs.Merkle.proof_verifies H t d index v sibs h]
  simp

/-- non-vacuity: a depth-2 tree over `Nat` with a toy hash -/
example : Merkle.verifyMerkleBranch (fun a b : Nat => 2 * a + 3 * b + 1) 7 [5, 52] 2 1
    (Merkle.Tree.root (fun a b : Nat => 2 * a + 3 * b + 1)
      (.node (.node (.leaf 5) (.leaf 7)) (.node (.leaf 9) (.leaf 11)))) = .ok true := by decide

end merkle

/-- `floorSquareRootFrom n x` (regenerated) returns the floor square root of `n` for every `n` and **every**
starting estimate `x`; it never panics and terminates (fuel above `x` and 2^32 suffices). -/
theorem isqrtFrom_floor (n x : UInt64) (fuel : Nat) (hf1 : x.toNat < fuel) (hf2 : 2 ^ 32 ≤ fuel) :
    ∃ v, FloorSquareRootFrom fuel n x = .ok v ∧
      v.toNat * v.toNat ≤ n.toNat ∧ n.toNat < (v.toNat + 1) * (v.toNat + 1) := by
  obtain ⟨v, h1, h2, h3⟩ := IsqrtFrom.floorFrom_correct n x fuel hf1 hf2
  exact ⟨v, h1, h2, h3⟩

theorem lookup_mem {l : List (UInt64 × UInt64)} {n v : UInt64} (h : l.lookup n = some v) : (n, v) ∈ l := by
  induction l with
  | nil => simp [List.lookup] at h
  | cons p l ih =>
    obtain ⟨a, b⟩ := p
    simp only [List.lookup] at h
    by_cases hn : n == a
    · simp only [hn] at h
      have : n = a := by simpa using hn
      cases h; subst this; exact List.mem_cons_self
    · simp only [hn] at h
      exact List.mem_cons_of_mem _ (ih h)

theorem table_exact : ∀ p ∈ Prysm.squareRootTable, p.2.toNat * p.2.toNat = p.1.toNat := by decide

/-- `IntegerSquareRootPrysm` returns the floor square root for every 64-bit input, **whatever** the
floating-point estimate is (table hit: exact root of a perfect square; otherwise the corrected estimate). -/
theorem isqrtPrysm_floor (est : UInt64 → UInt64) (n : UInt64) (fuel : Nat) (hf : 2 ^ 64 ≤ fuel) :
    ∃ v, Prysm.integerSquareRootPrysmWith est fuel n = .ok v ∧
      v.toNat * v.toNat ≤ n.toNat ∧ n.toNat < (v.toNat + 1) * (v.toNat + 1) := by
  unfold Prysm.integerSquareRootPrysmWith
  cases hl : Prysm.squareRootTable.lookup n with
  | some v =>
    have := table_exact _ (lookup_mem hl)
    simp only at this
    refine ⟨v, rfl, by omega, ?_⟩
    rw [← this]
    have : v.toNat * v.toNat < (v.toNat + 1) * (v.toNat + 1) := Nat.mul_lt_mul_of_lt_of_lt (by omega) (by omega)
    exact this
  | none =>
    have := (est n).toNat_lt
    exact isqrtFrom_floor n (est n) fuel (by omega) (by omega)

example : Prysm.integerSquareRootPrysmWith (fun _ => 67108865) 200 4503599761588224 = .ok 67108864 := by
  decide +kernel

/-- `ComputeSubnetForAttestation` (regenerated): whenever `committeesPerSlot * SLOTS_PER_EPOCH` is representable,
an in-range committee index gets the specification's subnet (wrap-around of the intermediate product and sum is
harmless because 64 divides 2^64) and an out-of-range one the error result; no panic. -/
theorem subnet_spec (spec : Spec) (cps slot ci : UInt64)
    (hlim : cps.toNat * spec.SLOTS_PER_EPOCH.toNat < 2 ^ 64) :
    (ci.toNat < cps.toNat * spec.SLOTS_PER_EPOCH.toNat →
      ∃ v, ComputeSubnetForAttestation spec cps slot ci = .ok v ∧
        v.toNat = Spec.subnetForAttestation spec.SLOTS_PER_EPOCH.toNat cps.toNat slot.toNat ci.toNat) ∧
    (cps.toNat * spec.SLOTS_PER_EPOCH.toNat ≤ ci.toNat → ComputeSubnetForAttestation spec cps slot ci = .err) := by
  have hmul : (cps * spec.SLOTS_PER_EPOCH).toNat = cps.toNat * spec.SLOTS_PER_EPOCH.toNat := by
    rw [UInt64.toNat_mul]; exact Nat.mod_eq_of_lt hlim
  constructor
  · intro hci
    have hspe : spec.SLOTS_PER_EPOCH ≠ 0 := by
      intro h; rw [h] at hci; simp at hci
    have hge : ¬ (ci ≥ cps * spec.SLOTS_PER_EPOCH) := by
      intro h
      have := UInt64.le_iff_toNat_le.mp h
      omega
    have h64 : (64 : UInt64) ≠ 0 := by decide
    refine ⟨(cps * (slot % spec.SLOTS_PER_EPOCH) + ci) % 64, ?_, ?_⟩
    · simp [ComputeSubnetForAttestation, hge, Res.umod, hspe, h64]
    · unfold Spec.subnetForAttestation
      rw [UInt64.toNat_mod, UInt64.toNat_add, UInt64.toNat_mul, UInt64.toNat_mod]
      have : (64 : UInt64).toNat = 64 := by decide
      rw [this]
      generalize cps.toNat * (slot.toNat % spec.SLOTS_PER_EPOCH.toNat) = p
      omega
  · intro hci
    have hge : ci ≥ cps * spec.SLOTS_PER_EPOCH := by
      apply UInt64.le_iff_toNat_le.mpr; omega
    simp [ComputeSubnetForAttestation, hge]

example : ComputeSubnetForAttestation { (default : Spec) with SLOTS_PER_EPOCH := 8 } 4 13 2 = .ok 22 := by decide

/-- deneb's activation churn is the minimum of the cap and the phase0 churn -/
theorem activationChurn_spec (spec : Spec) (c : UInt64) :
    (GetValidatorActivationChurnLimit spec c).toNat =
      Spec.activationChurnLimit spec.MAX_PER_EPOCH_ACTIVATION_CHURN_LIMIT.toNat c.toNat := by
  unfold GetValidatorActivationChurnLimit Spec.activationChurnLimit
  by_cases h : spec.MAX_PER_EPOCH_ACTIVATION_CHURN_LIMIT ≤ c
  · have := UInt64.le_iff_toNat_le.mp h
    simp [h]; omega
  · have : ¬ spec.MAX_PER_EPOCH_ACTIVATION_CHURN_LIMIT.toNat ≤ c.toNat := fun h' => h (UInt64.le_iff_toNat_le.mpr h')
    simp [h]; omega

end Zrnt.Proofs.C19
