import Proofs.Lemmas.Isqrt
import Zrnt.Util.Merkle
import Zrnt.Util.MathSpec
/-!
# C19 — numeric, time and Merkle helpers are exact over their whole domain

Theorems about the functions **regenerated from /repo's source on every run** (`Zrnt.Gen.GoFuns`,
tie R-fun) and about the hand model of `VerifyMerkleBranch` (tie H). All quantifiers range over the
full `UInt64` domain; no `bv_decide`, no `native_decide`.
-/
namespace Zrnt.Proofs.C19
open Zrnt Zrnt.Gen.GoFuns Zrnt.Util

/-- `IntegerSquareroot` returns the floor of the real square root for **every** 64-bit input
(including 2^64−1), never panics, and its loop terminates: any fuel above `n` suffices. -/
theorem isqrt_floor (n : UInt64) (fuel : Nat) (hf : n.toNat + 1 ≤ fuel) :
    ∃ r, IntegerSquareroot fuel n = .ok r ∧
      r.toNat * r.toNat ≤ n.toNat ∧ n.toNat < (r.toNat + 1) * (r.toNat + 1) := by
  unfold IntegerSquareroot
  by_cases hmax : n = ~~~ 0
  · subst hmax
    refine ⟨4294967295, by simp, by decide, by decide⟩
  · have hne : (n == ~~~ 0) = false := by simpa using hmax
    have hlt : n.toNat + 1 < 2 ^ 64 := by
      have h1 : n.toNat < 2 ^ 64 := n.toNat_lt
      have h2 : n.toNat ≠ 2 ^ 64 - 1 := by
        intro h; apply hmax; apply UInt64.toNat_inj.mp; rw [h]; decide
      omega
    simp only [hne]
    by_cases h0 : n = 0
    · subst h0
      refine ⟨0, ?_, by decide, by decide⟩
      cases fuel with
      | zero => simp at hf
      | succ f => simp [IntegerSquareroot.loop1, Res.shr]
    · have hpos : 0 < n.toNat := by
        rcases Nat.eq_zero_or_pos n.toNat with h | h
        · exact absurd (UInt64.toNat_inj.mp (by rw [h]; rfl)) h0
        · exact h
      have hinv : Isqrt.Inv n n (Res.shr (n + 1) 1) := by
        refine ⟨hpos, Nat.le_refl _, ?_, by nlinarith⟩
        have : (1 : UInt64) < 64 := by decide
        simp only [Res.shr, this, ite_true]
        rw [UInt64.toNat_shiftRight, UInt64.toNat_add]
        have h1 : (1 : UInt64).toNat % 64 = 1 := by decide
        have h2 : (1 : UInt64).toNat = 1 := by decide
        rw [h1, h2, Nat.shiftRight_eq_div_pow, Nat.mod_eq_of_lt hlt, Nat.div_self hpos]
      obtain ⟨r, y', hr, h1, h2⟩ := Isqrt.loop_correct n hlt fuel n _ hinv (by omega)
      exact ⟨r, by simp [hr], h1, h2⟩

/-- non-vacuity / the formerly panicking input -/
example : IntegerSquareroot 100 (2 ^ 64 - 1) = .ok 4294967295 := by decide +kernel

theorem maxU64_spec (a b : UInt64) : (MaxU64 a b).toNat = Nat.max a.toNat b.toNat := by
  unfold MaxU64
  by_cases h : a > b
  · have : b.toNat < a.toNat := UInt64.lt_iff_toNat_lt.mp h
    simp [h]; omega
  · have : ¬ b.toNat < a.toNat := fun h' => h (UInt64.lt_iff_toNat_lt.mpr h')
    simp [h]; omega

theorem minU64_spec (a b : UInt64) : (MinU64 a b).toNat = Nat.min a.toNat b.toNat := by
  unfold MinU64
  by_cases h : a < b
  · have : a.toNat < b.toNat := UInt64.lt_iff_toNat_lt.mp h
    simp [h]; omega
  · have : ¬ a.toNat < b.toNat := fun h' => h (UInt64.lt_iff_toNat_lt.mpr h')
    simp [h]; omega

/-- `SlotToEpoch` is exact floor division; it panics only for `SLOTS_PER_EPOCH = 0` (outside the domain). -/
theorem slotToEpoch_spec (spec : Spec) (s : UInt64) (h : spec.SLOTS_PER_EPOCH ≠ 0) :
    ∃ e, SlotToEpoch spec s = .ok e ∧ e.toNat = Spec.slotToEpoch spec.SLOTS_PER_EPOCH.toNat s.toNat := by
  refine ⟨s / spec.SLOTS_PER_EPOCH, ?_, ?_⟩
  · simp [SlotToEpoch, Res.udiv, h]
  · simp [Spec.slotToEpoch, UInt64.toNat_div]

theorem timeToSlot_spec (spec : Spec) (t g : UInt64) (h : spec.SECONDS_PER_SLOT ≠ 0) :
    ∃ s, TimeToSlot spec t g = .ok s ∧
      s.toNat = Spec.timeToSlot spec.SECONDS_PER_SLOT.toNat t.toNat g.toNat := by
  unfold TimeToSlot Spec.timeToSlot
  by_cases hlt : t < g
  · have : t.toNat < g.toNat := UInt64.lt_iff_toNat_lt.mp hlt
    exact ⟨0, by simp [hlt], by simp [this]⟩
  · have hge : ¬ t.toNat < g.toNat := fun h' => hlt (UInt64.lt_iff_toNat_lt.mpr h')
    refine ⟨(t - g) / spec.SECONDS_PER_SLOT, by simp [hlt, Res.udiv, h], ?_⟩
    have hsub : (t - g).toNat = t.toNat - g.toNat := by
      rw [UInt64.toNat_sub]
      have := t.toNat_lt; have := g.toNat_lt
      omega
    simp [hge, UInt64.toNat_div, hsub]

/-- `TimeAtSlot` returns the exact timestamp iff it is representable in 64 bits, and the error
otherwise: never a wrapped value. -/
theorem timeAtSlot_spec (spec : Spec) (slot g : UInt64) (h : spec.SECONDS_PER_SLOT ≠ 0) :
    match Spec.timeAtSlot spec.SECONDS_PER_SLOT.toNat slot.toNat g.toNat with
    | some v => ∃ t, TimeAtSlot spec slot g = .ok t ∧ t.toNat = v
    | none => TimeAtSlot spec slot g = .err := by
  have hs : 0 < spec.SECONDS_PER_SLOT.toNat := by
    rcases Nat.eq_zero_or_pos spec.SECONDS_PER_SLOT.toNat with h0 | h0
    · exact absurd (UInt64.toNat_inj.mp (by rw [h0]; rfl)) h
    · exact h0
  have hmax : ((~~~ (0 : UInt64)) - g).toNat = 2 ^ 64 - 1 - g.toNat := by
    rw [UInt64.toNat_sub]
    have : (~~~ (0 : UInt64)).toNat = 2 ^ 64 - 1 := by decide
    rw [this]; have := g.toNat_lt; omega
  have hdiv : (((~~~ (0 : UInt64)) - g) / spec.SECONDS_PER_SLOT).toNat =
      (2 ^ 64 - 1 - g.toNat) / spec.SECONDS_PER_SLOT.toNat := by rw [UInt64.toNat_div, hmax]
  have hU : Spec.U64 = 2 ^ 64 := rfl
  have hdef : TimeAtSlot spec slot g =
      if slot > ((~~~ 0) - g) / spec.SECONDS_PER_SLOT then Res.err
      else Res.ok (slot * spec.SECONDS_PER_SLOT + g) := by
    simp only [TimeAtSlot, Res.udiv, h, if_false, bind, Res.bind, decide_eq_true_eq]
    rfl
  rw [hdef]
  unfold Spec.timeAtSlot
  by_cases hgt : slot > ((~~~ 0) - g) / spec.SECONDS_PER_SLOT
  · have hgt' : (2 ^ 64 - 1 - g.toNat) / spec.SECONDS_PER_SLOT.toNat < slot.toNat := by
      have := UInt64.lt_iff_toNat_lt.mp hgt
      rwa [hdiv] at this
    have hover : ¬ slot.toNat * spec.SECONDS_PER_SLOT.toNat + g.toNat < Spec.U64 := by
      intro hlt
      rw [hU] at hlt
      have : slot.toNat ≤ (2 ^ 64 - 1 - g.toNat) / spec.SECONDS_PER_SLOT.toNat :=
        (Nat.le_div_iff_mul_le hs).mpr (by omega)
      omega
    rw [if_pos hgt]
    simp only [hover, ↓reduceIte]
  · have hle' : slot.toNat ≤ (2 ^ 64 - 1 - g.toNat) / spec.SECONDS_PER_SLOT.toNat := by
      have : ¬ _ := fun h' => hgt (UInt64.lt_iff_toNat_lt.mpr h')
      rw [hdiv] at this
      omega
    have hfit : slot.toNat * spec.SECONDS_PER_SLOT.toNat + g.toNat < Spec.U64 := by
      have := (Nat.le_div_iff_mul_le hs).mp hle'
      have := g.toNat_lt
      rw [hU]; omega
    rw [if_neg hgt]
    simp only [hfit, ↓reduceIte]
    refine ⟨_, rfl, ?_⟩
    rw [hU] at hfit
    rw [UInt64.toNat_add, UInt64.toNat_mul]
    have : slot.toNat * spec.SECONDS_PER_SLOT.toNat < 2 ^ 64 := by omega
    rw [Nat.mod_eq_of_lt this, Nat.mod_eq_of_lt hfit]

end Zrnt.Proofs.C19
