import Zrnt.SSZ.Codec
/-! # C04 — SSZ encoding round-trips and agrees with declared lengths (generic theorems; under construction) -/
namespace Zrnt.Proofs.C04
open Zrnt.SSZ

/-- `isFixed` is by definition "has a fixed length". -/
theorem isFixed_iff (t : Ty) : t.isFixed = true ↔ ∃ n, t.fixedLen? = some n := by
  unfold Ty.isFixed
  cases t.fixedLen? <;> simp

end Zrnt.Proofs.C04
