import Proofs.Lemmas.SSZCanonical
import Zrnt.Gen.SszFacts
import Zrnt.Gen.SszCodec
import Zrnt.Gen.SszTags
import Proofs.Lemmas.SSZSchemaLegal
import Proofs.Lemmas.SSZPolyNF
import Proofs.Lemmas.SSZDenote
import Proofs.Lemmas.SSZLeaf
import Proofs.Lemmas.SSZDenoteLeaf
/-!
# C04 — SSZ encoding round-trips, agrees with declared lengths, and malformed input is refused

Generic theorems about `Zrnt.SSZ` (the SSZ rules of simple-serialize.md over the closed type universe `Ty`),
proved once by induction over the type. They hold for **every** type of the universe, hence for every
entry of the specification schema (`Zrnt.Schema.Spec.table`) at every configuration. The Go types are tied
to these functions (a) by the differential run of every Go SSZ type against `decode/encode/byteLength/
fixedLen/htr` at the specification schema (mode `ssz`) and (b) by the table theorems over the facts
regenerated from the Go source (`ssz_methods_agree`, `ssz_types_complete` below).
-/
namespace Zrnt.Proofs.C04
open Zrnt.SSZ Zrnt.Proofs.SSZ

/-- **Round trip.** Serializing a well-typed value and deserializing the bytes gives back the value.
Hypotheses: the type is legal SSZ (no zero-length vectors, no empty containers, uint widths 8..256) and the
encoding is shorter than 2^32 bytes (SSZ offsets are 32-bit; beyond that no SSZ encoding exists). -/
theorem decode_encode (t : Ty) (v : Val) (hl : t.Legal) (hw : WF t v) (hlen : (encode t v).length < 2 ^ 32) :
    decode t (encode t v) = some v :=
  decode_encode_aux t v hl hw hlen

/-- **Reported byte length = bytes written**, for every well-typed value of every type. -/
theorem encode_size_eq_byteLength (t : Ty) (v : Val) (hw : WF t v) : (encode t v).length = byteLength t v :=
  encode_length t v hw

/-- **Fixed length agrees with fixed/variable size.** For legal types the reported fixed length is non-zero
exactly for fixed-size types (this is what makes "FixedLength() == 0 means variable size" sound), -/
theorem fixedLen_iff_isFixed (t : Ty) (hl : t.Legal) : t.fixedLen ≠ 0 ↔ t.isFixed = true := by
  unfold Ty.fixedLen Ty.isFixed
  cases h : t.fixedLen? with
  | none => simp
  | some s => have := legal_fixed_pos t s hl h; simp; omega

/-- … and every well-typed value of a fixed-size type is encoded in exactly that many bytes. -/
theorem encode_size_of_isFixed (t : Ty) (v : Val) (hf : t.isFixed = true) (hw : WF t v) :
    (encode t v).length = t.fixedLen := by
  unfold Ty.isFixed at hf
  unfold Ty.fixedLen
  cases h : t.fixedLen? with
  | none => simp [h] at hf
  | some s => simpa using encode_fixed t v s h hw

/-- **Malformed input is refused; accepted bytes are canonical.** Whatever `decode` accepts is *the*
encoding of a well-typed value: truncated input, excess bytes, a first offset different from the size of the
fixed section, decreasing or out-of-range offsets, lists/bitlists/byte lists over their limit, a bitlist
without delimiter bit, non-zero bitvector padding and booleans other than 0/1 all make `decode` return `none`
(each would otherwise be an accepted byte string that differs from the re-encoding of the decoded value,
or decode to an ill-typed value). No hypothesis on the type or the length of the input. -/
theorem decode_some_imp_canonical (t : Ty) (bs : Bytes) (v : Val) (h : decode t bs = some v) :
    bs = encode t v ∧ WF t v :=
  ⟨(decode_some_aux t bs v h).2.symm, (decode_some_aux t bs v h).1⟩

/-- Consequence: `decode` is injective — two different byte strings never decode to the same value. -/
theorem decode_injective (t : Ty) (b1 b2 : Bytes) (v : Val) (h1 : decode t b1 = some v) (h2 : decode t b2 = some v) :
    b1 = b2 := by
  rw [(decode_some_imp_canonical t b1 v h1).1, (decode_some_imp_canonical t b2 v h2).1]

/-- Consequence: a list longer than its limit is never produced by `decode`. -/
theorem decode_list_within_limit (t : Ty) (lim : Nat) (bs : Bytes) (vs : List Val)
    (h : decode (.list t lim) bs = some (.seq vs)) : vs.length ≤ lim := by
  have := (decode_some_imp_canonical _ bs _ h).2
  simp only [WF] at this
  exact this.1

/-- Consequence: `encode` is injective on well-typed values (canonical bytes identify the value). -/
theorem encode_injective (t : Ty) (v w : Val) (hl : t.Legal) (hv : WF t v) (hw : WF t w)
    (hlen : (encode t v).length < 2 ^ 32) (h : encode t v = encode t w) : v = w := by
  have h1 := decode_encode t v hl hv hlen
  have h2 := decode_encode t w hl hw (h ▸ hlen)
  rw [h] at h1
  rw [h1] at h2
  exact Option.some.inj h2

/-! ## The generic theorems apply to every type of the specification schema, under every configuration -/

open Zrnt.Schema in
/-- Every entry of the specification schema is a legal SSZ type under every configuration with positive
constants and at least one member per sync subcommittee (mainnet, minimal and every custom preset used by the
correspondence run are such configurations). -/
theorem schema_types_legal (c : Config) (hpos : ∀ k, 0 < c k) (hsync : 4 ≤ c n!"SYNC_COMMITTEE_SIZE") :
    ∀ e ∈ Spec.table, (e.2.eval c).Legal := by
  intro e he
  have hc : GoodConfig schemaDivs c := by
    refine ⟨hpos, ?_⟩
    intro d hd
    simp only [schemaDivs, List.mem_singleton] at hd
    subst hd
    simp only [LExpr.eval]
    omega
  exact legalS_sound schemaDivs c hc e.2 (List.all_eq_true.mp table_legalS e he)

open Zrnt.Schema in
/-- **Round trip for every schema type, every configuration, every value** (the quantifier of the property). -/
theorem schema_round_trip (c : Config) (hpos : ∀ k, 0 < c k) (hsync : 4 ≤ c n!"SYNC_COMMITTEE_SIZE")
    (name : Name) (st : STy) (h : Spec.lookup name = some st) (v : Val) (hw : WF (st.eval c) v)
    (hlen : (encode (st.eval c) v).length < 2 ^ 32) :
    decode (st.eval c) (encode (st.eval c) v) = some v := by
  unfold Spec.lookup at h
  cases hf : Spec.table.find? (·.1 == name) with
  | none => simp [hf] at h
  | some e =>
    simp only [hf, Option.map_some, Option.some.injEq] at h
    subst h
    exact decode_encode _ v (schema_types_legal c hpos hsync e (List.mem_of_find?_eq_some hf)) hw hlen

/-! ## The Go types against the specification schema (facts regenerated from /repo on every run) -/

open Zrnt.Schema Zrnt.Schema.Facts Zrnt.Gen.SszFacts in
/-- **Every Go SSZ type agrees with the specification schema** (`Zrnt.Schema.Facts.checkType`), for all
configurations (lengths and limits are compared as polynomials over the configuration constants):
* the struct declaration has the schema's fields in the schema's order, each field's Go type is (an alias of)
  the schema's field type (the `json` / `yaml` tags are `ssz_text_tags_agree` below);
* `Deserialize`, `Serialize`, `ByteLength` and `FixedLength` each list exactly the struct's
  fields in declaration order (`dr/w.Container`, `FixedLenContainer` only for fixed-size containers,
  `codec.ContainerLength`), or report the schema's fixed length;
* list/vector/bitfield wrappers decode with the schema's limit and element size
  (the `HashTreeRoot` bodies are the `.root` part of the same check: `Zrnt.Gen.SszRoot`, property C05);
* the tree-view type definition (`XType`) denotes the schema.
Bodies outside the recognised shapes are `opaque` (`Zrnt.Gen.SszFacts.opaqueMethods`, counted in the evidence):
they are not covered by this theorem, only by the differential run. A row that stops checking is a failing
`Zrnt.Gen.SszCodec.row_ok_<pkg>_<Type>` obligation and `checkType` evaluates to the offending method. Rows listed in
`Zrnt.Schema.Facts.knownDeviations` (recorded findings: a custom preset that changes `MAX_EXTRA_DATA_BYTES` or
`BYTES_PER_LOGS_BLOOM` is ignored by zrnt) are exempt for exactly the recorded reason. -/
theorem ssz_methods_agree : ∀ T ∈ types, T.name ∉ knownDeviations.map (·.1) → checkType owners views .codec T = none := by
  intro T h hdev
  have hrow := List.all_eq_true.mp Zrnt.Gen.SszCodec.all_rows_ok T h
  unfold rowOk at hrow
  cases hc : checkType owners views .codec T with
  | none => rfl
  | some r =>
    exfalso
    simp only [hc, List.any_eq_true, Bool.and_eq_true, beq_iff_eq] at hrow
    obtain ⟨d, hd, hn, _⟩ := hrow
    exact hdev (hn ▸ List.mem_map_of_mem hd)

open Zrnt.Schema Zrnt.Schema.Facts Zrnt.Gen.SszFacts in
/-- **The text form of every struct type uses the specification's field names** (facts regenerated by
`extract ssztags` into `Zrnt.Gen.SszTags`, one kernel-decided obligation `tags_ok_<pkg>_<Type>` per row): for every Go
struct type with the SSZ method set, the `json` tag and the `yaml` tag of the i-th field are the name of the i-th field
of the specification schema — hence pairwise distinct, so `encoding/json` and yaml neither drop nor merge a field, and
the keys are those of `Zrnt.SSZ.toJson`. Kept apart from `ssz_methods_agree`: bytes and hash-tree-roots do not depend
on tags, so C05 does not read this table. -/
theorem ssz_text_tags_agree : ∀ T ∈ types, ∀ fs fields, Spec.lookup T.name = some (.container fs) → T.decl = .struct fields →
    tagsOk fields fs = true := by
  intro T h fs fields hs hd
  have hrow := List.all_eq_true.mp Zrnt.Gen.SszTags.all_tags_ok T h
  simp only [tagsRowOk, checkTags, hs, hd] at hrow
  split at hrow
  · assumption
  · simp at hrow

open Zrnt.Schema Zrnt.Schema.Facts Zrnt.Gen.SszFacts in
/-- the rows exempted as recorded findings: exactly the two bellatrix preset values zrnt hard-codes -/
theorem known_deviations_are : knownDeviations.map (·.1) = [n!"common.ExtraData", n!"common.LogsBloom"] := rfl

open Zrnt.Schema Zrnt.Schema.Facts in
/-- What "limits agree" in `ssz_methods_agree` means: two length expressions that `checkType` accepts as the
same (`sameLen`: equal polynomial normal forms, quotients as atoms) have the same value under **every**
configuration, not only at the presets. -/
theorem limits_agree_for_all_configs (a b : LExpr) (h : sameLen a b = true) (c : Config) : a.eval c = b.eval c :=
  sameLen_sound a b h c

open Zrnt.Schema Zrnt.Schema.Facts Zrnt.Gen.SszFacts in
/-- **The Go SSZ types are exactly the schema's entries**: every Go type with the SSZ method set has a
specification entry of its name (specification containers plus the list/alias helpers listed in
`Zrnt.Schema.Spec*`), every entry is implemented by a Go type, and no name occurs twice — a new or
forgotten type is an error, not a gap. -/
theorem ssz_types_complete :
    (∀ n ∈ typeNames, (Spec.lookup n).isSome = true) ∧ (∀ e ∈ Spec.table, e.1 ∈ typeNames) ∧ typeNames.Nodup := by
  refine ⟨?_, ?_, ?_⟩
  · have h : typeNames.all (fun n => (Spec.lookup n).isSome) = true := by decide +kernel
    exact fun n hn => List.all_eq_true.mp h n hn
  · have h : Spec.table.all (fun e => typeNames.contains e.1) = true := by decide +kernel
    intro e he
    have := List.all_eq_true.mp h e he
    simpa using this
  · decide +kernel

/-! ## What a checked row means: the Go methods compute the specification's functions -/

open Zrnt.Schema Zrnt.Schema.Facts Zrnt.Gen.SszFacts in
/-- no body of an encoding method (`Deserialize`, `Serialize`, `ByteLength`, `FixedLength`) of the regenerated table is
outside the recognised shapes (the `HashTreeRoot` bodies: `Zrnt.Proofs.C05.no_opaque_root_bodies`) -/
theorem no_opaque_bodies : types.all (fun T => !T.codecOpaque) = true := by decide +kernel

open Zrnt.Schema Zrnt.Schema.Facts Zrnt.Gen.SszFacts in
/-- no encoding method of a row of the regenerated table is opaque (unfolded form of `no_opaque_bodies`) -/
theorem row_methods_not_opaque (T : GoType) (hT : T ∈ types) :
    T.deserialize.isOpaque = false ∧ T.serialize.isOpaque = false ∧ T.byteLength.isOpaque = false ∧
    T.fixedLength.isOpaque = false := by
  have hop := List.all_eq_true.mp no_opaque_bodies T hT
  simp only [GoType.codecOpaque, Bool.not_eq_true', Bool.or_eq_false_iff] at hop
  exact ⟨hop.1.1.1, hop.1.1.2, hop.1.2, hop.2⟩

open Zrnt.Schema Zrnt.Schema.Facts Zrnt.Gen.SszFacts in
/-- the membership half of `Spec.lookup` -/
theorem lookup_mem (n : Name) (st : STy) (h : Spec.lookup n = some st) : (n, st) ∈ Spec.table := by
  unfold Spec.lookup at h
  cases hf : Spec.table.find? (·.1 == n) with
  | none => simp [hf] at h
  | some e =>
    simp only [hf, Option.map_some, Option.some.injEq] at h
    have hm := List.mem_of_find?_eq_some hf
    have hk := List.find?_some hf
    have : e = (n, st) := by
      cases e; simp only [beq_iff_eq] at hk; simp_all
    rw [← this]; exact hm

open Zrnt.Schema Zrnt.Schema.Facts Zrnt.Gen.SszFacts in
/-- **Semantic soundness of the facts check, struct types (encoding methods).** Let `T` be a row of the regenerated
table whose specification schema is a container, and let `env` give, for the Go type of every field, an implementation
that meets the specification at that field type's schema (compositional hypothesis: those types have their own rows).
Then what the four encoding methods of `T` compute — the models of ztyp's `w.Container` / `FixedLenContainer` /
`dr.Container` / `codec.ContainerLength` (`Zrnt.SSZ.Impl`) applied to the field implementations in the order the method
bodies list them, resp. the constants the length methods return — is the specification at `T`'s schema under the
configuration `c`: `Deserialize = decode`, `FixedLength = fixedLen`, and on every well-typed value `Serialize = encode`,
`ByteLength = byteLength`. (`HashTreeRoot = htr`: `Zrnt.Proofs.C05.checkType_root_struct`. ztyp's combinators are
modelled at the level of whole scopes; the real ones are compared with the same specification by the differential run.) -/
theorem checkType_sound_struct (H : Hash2) (c : Config) (hpos : ∀ k, 0 < c k) (hsync : 4 ≤ c n!"SYNC_COMMITTEE_SIZE")
    (env : Env) (T : GoType) (hT : T ∈ types) (hdev : T.name ∉ knownDeviations.map (·.1))
    (sfs : SFields) (fields : List GoField)
    (hschema : Spec.lookup T.name = some (.container sfs)) (hdecl : T.decl = .struct fields)
    (henv : EnvOk H c env fields) :
    ∃ I, denoteStructCodec c owners views env fields T = some I ∧
      I.des = decode ((STy.container sfs).eval c) ∧ I.flen = ((STy.container sfs).eval c).fixedLen ∧
      ∀ v, WF ((STy.container sfs).eval c) v →
        I.ser v = encode ((STy.container sfs).eval c) v ∧ I.blen v = byteLength ((STy.container sfs).eval c) v := by
  obtain ⟨hs, hdes, hser, hbl, hfl⟩ := extract_struct_codec owners views T sfs fields (ssz_methods_agree T hT hdev) hschema hdecl
  have hleg := schema_types_legal c hpos hsync _ (lookup_mem _ _ hschema)
  simp only [STy.eval, Ty.Legal] at hleg
  obtain ⟨o1, o2, o3, o4⟩ := row_methods_not_opaque T hT
  have e1 := structSer_sound H c owners views env fields sfs hleg.2 hs henv _ o2 hser
  have e2 := structDes_sound H c owners views env fields sfs hleg.2 hs henv _ o1 hdes
  obtain ⟨b, e3, hb⟩ := structBlen_sound H c owners views env fields sfs hleg.2 hs henv _ o3 hbl
  have e4 := structFlen_sound H c owners views env fields sfs hs henv _ o4 hfl
  simp only [STy.eval]
  exact ⟨⟨encode (.container (sfs.eval c)), decode (.container (sfs.eval c)), b, (Ty.container (sfs.eval c)).fixedLen⟩,
    by simp only [denoteStructCodec, e1, e2, e3, e4], rfl, rfl, fun v hw => ⟨rfl, hb v hw⟩⟩

open Zrnt.Schema Zrnt.Schema.Facts Zrnt.Gen.SszFacts in
/-- **Semantic soundness of the facts check, list wrapper types** (`type Deposits []Deposit` …), encoding methods. If the
element implementation `e` meets the specification at the element schema, then what the four encoding methods of the
list type compute — ztyp's `w.List(item, size, len)`, `dr.List(add, size, limit)`, `len * size` resp.
`Σ (item + offset)`, and `0`, with the size and limit expressions of the method bodies evaluated under `c` — is the
specification at `List[elem, limit]`: in particular the limit used by `Deserialize` is the schema's limit under every
configuration. (`HashTreeRoot`: `Zrnt.Proofs.C05.checkType_root_list`.) -/
theorem checkType_sound_list (H : Hash2) (c : Config) (hpos : ∀ k, 0 < c k) (hsync : 4 ≤ c n!"SYNC_COMMITTEE_SIZE")
    (T : GoType) (hT : T ∈ types) (hdev : T.name ∉ knownDeviations.map (·.1)) (elem : STy) (lim : LExpr)
    (hschema : Spec.lookup T.name = some (.list elem lim)) :
    ∃ I, denoteListCodec c owners views (specImpl H (elem.eval c)) T = some I ∧
      I.des = decode ((STy.list elem lim).eval c) ∧ I.flen = ((STy.list elem lim).eval c).fixedLen ∧
      ∀ v, WF ((STy.list elem lim).eval c) v →
        I.ser v = encode ((STy.list elem lim).eval c) v ∧ I.blen v = byteLength ((STy.list elem lim).eval c) v := by
  obtain ⟨hdes, hser, hbl, hfl⟩ := extract_list_codec owners views T elem lim (ssz_methods_agree T hT hdev) hschema
  have hleg := schema_types_legal c hpos hsync _ (lookup_mem _ _ hschema)
  simp only [STy.eval, Ty.Legal] at hleg
  obtain ⟨o1, o2, o3, o4⟩ := row_methods_not_opaque T hT
  have e1 := listSer_sound H c owners views elem lim hleg _ o2 hser
  have e2 := listDes_sound H c owners views elem lim hleg _ o1 hdes
  obtain ⟨b, e3, hb⟩ := listBlen_sound H c owners views elem lim hleg _ o3 hbl
  have e4 := listFlen_sound c owners views elem lim _ o4 hfl
  simp only [STy.eval]
  exact ⟨⟨encode (.list (elem.eval c) (lim.eval c)), decode (.list (elem.eval c) (lim.eval c)), b,
      (Ty.list (elem.eval c) (lim.eval c)).fixedLen⟩,
    by simp only [denoteListCodec, e1, e2, e3, e4], rfl, rfl, fun v hw => ⟨rfl, hb v hw⟩⟩

open Zrnt.Schema Zrnt.Schema.Facts Zrnt.Gen.SszFacts in
/-- **Semantic soundness of the facts check, vector types** (`type RandaoMixes []Root`, `type DepositProof [33]Root`,
`HistoricalBatchRoots`, the sync-committee key vectors, …), encoding methods. For a row whose schema is
`Vector[elem, len]` and an implementation of the element type that *is* the specification at `elem`, what the four
encoding methods compute — ztyp's `w.Vector(item, size, len)` / `tree.WriteRoots`, `dr.Vector(item, size, len)` /
`tree.ReadRoots`, `len(a) * size` resp. the constants of the length methods, with the size and length expressions of the
bodies evaluated under `c` — is the specification at `Vector[elem, len]`: the length used by `Deserialize` is the
schema's under every configuration. (`HashTreeRoot`: `Zrnt.Proofs.C05.checkType_root_vector`.) -/
theorem checkType_sound_vector (H : Hash2) (c : Config) (hpos : ∀ k, 0 < c k) (hsync : 4 ≤ c n!"SYNC_COMMITTEE_SIZE")
    (T : GoType) (hT : T ∈ types) (hdev : T.name ∉ knownDeviations.map (·.1)) (elem : STy) (len : LExpr)
    (hschema : Spec.lookup T.name = some (.vector elem len)) :
    ∃ I, denoteVectorCodec c owners views (specImpl H (elem.eval c)) T = some I ∧
      I.des = decode ((STy.vector elem len).eval c) ∧ I.flen = ((STy.vector elem len).eval c).fixedLen ∧
      ∀ v, WF ((STy.vector elem len).eval c) v →
        I.ser v = encode ((STy.vector elem len).eval c) v ∧ I.blen v = byteLength ((STy.vector elem len).eval c) v := by
  obtain ⟨hdes, hser, hbl, hfl⟩ := extract_vector_codec owners views T elem len (ssz_methods_agree T hT hdev) hschema
  have hleg := schema_types_legal c hpos hsync _ (lookup_mem _ _ hschema)
  simp only [STy.eval, Ty.Legal] at hleg
  obtain ⟨o1, o2, o3, o4⟩ := row_methods_not_opaque T hT
  have e1 := vecSer_sound H c owners views elem len hleg.2 _ o2 hser
  have e2 := vecDes_sound H c owners views elem len hleg.2 _ o1 hdes
  obtain ⟨b, e3, hb⟩ := vecBlen_sound c owners views elem len hleg.2 _ o3 hbl
  have e4 := vecFlen_sound c owners views elem len _ o4 hfl
  simp only [STy.eval]
  exact ⟨⟨encode (.vector (elem.eval c) (len.eval c)), decode (.vector (elem.eval c) (len.eval c)), b,
      (Ty.vector (elem.eval c) (len.eval c)).fixedLen⟩,
    by simp only [denoteVectorCodec, e1, e2, e3, e4], rfl, rfl, fun v hw => ⟨rfl, hb v hw⟩⟩

/-- A leaf codec over raw bytes that meets the specification at `t`, read through the encoding (`LeafCodec.lift`), is
the specification on values: same statement shape as for structs, lists and vectors. -/
theorem leaf_meets_lift (t : Ty) (L : LeafCodec) (h : L.Meets t) :
    (L.lift t).des = decode t ∧ (L.lift t).flen = t.fixedLen ∧
    ∀ v, WF t v → (L.lift t).ser v = encode t v ∧ (L.lift t).blen v = byteLength t v := by
  obtain ⟨hd, hf, hv⟩ := h
  refine ⟨?_, hf, fun v hw => hv v hw⟩
  funext bs
  simp only [LeafCodec.lift, hd]
  cases hdec : decode t bs with
  | none => rfl
  | some v =>
    have := (decode_some_imp_canonical t bs v hdec).1
    simp only [Option.map_some, Option.bind_some, ← this, hdec]

open Zrnt.Schema Zrnt.Schema.Facts Zrnt.Gen.SszFacts in
/-- **Semantic soundness of the facts check, bit fields and byte lists** (`AttestationBits`, `SyncCommitteeBits`,
`JustificationBits`-style bitvectors, `ExtraData`, `Transaction`, …), encoding methods: the Go value *is* the byte
string. For a row whose schema is `Bitlist[lim]`, `Bitvector[lim]` or `ByteList[lim]`, the byte-level models of what the
four encoding methods call — `common.ReadBitList` with `BitlistCheck`, ztyp's `dr.Read` of the exact length /
`dr.ByteList`-style scope read with the limit, `w.Write`, `len(a)` resp. the constant of the length methods, with the
limit expressions of the bodies evaluated under `c` — meet the specification at the schema: the set of accepted byte
strings and the reported lengths are the specification's, for the schema's limit under every configuration.
(`HashTreeRoot`: `Zrnt.Proofs.C05.checkType_root_bitfield`.) -/
theorem checkType_sound_bitfield (c : Config)
    (T : GoType) (hT : T ∈ types) (hdev : T.name ∉ knownDeviations.map (·.1)) (lim : LExpr) (sty : STy)
    (hkind : sty = .bitlist lim ∨ sty = .bitvector lim ∨ sty = .byteList lim)
    (hschema : Spec.lookup T.name = some sty) :
    ∃ L, denoteLeafCodec c owners views T = some L ∧ L.Meets (sty.eval c) := by
  obtain ⟨o1, o2, o3, o4⟩ := row_methods_not_opaque T hT
  rcases hkind with rfl | rfl | rfl
  · obtain ⟨h1, h2, h3, h4⟩ := extract_bitlist_codec owners views T lim (ssz_methods_agree T hT hdev) hschema
    exact bitlist_row_sound c owners views lim T o1 o2 o3 o4 h1 h2 h3 h4
  · obtain ⟨h1, h2, h3, h4⟩ := extract_bitvector_codec owners views T lim (ssz_methods_agree T hT hdev) hschema
    exact bitvector_row_sound c owners views lim T o1 o2 o3 o4 h1 h2 h3 h4
  · obtain ⟨h1, h2, h3, h4⟩ := extract_byteList_codec owners views T lim (ssz_methods_agree T hT hdev) hschema
    exact bytelist_row_sound c owners views lim T o1 o2 o3 o4 h1 h2 h3 h4

open Zrnt.Schema Zrnt.Schema.Facts Zrnt.Gen.SszFacts in
/-- **Semantic soundness of the facts check, leaf types** (integer aliases `Slot`, `Epoch`, `Gwei`, `ValidatorIndex`, …
and byte arrays `Root`, `BLSPubkey`, `BLSSignature`, `Version`, `LogsBloom`, …), encoding methods. For a row whose schema
is `uintN` or `BytesN`, the byte-level models of the four encoding methods — `UintNView.Deserialize` / `dr.Read(p[:])`
(exactly the fixed number of bytes), `w.WriteUintN` / `w.Write(p[:])`, the constant length reports — meet the
specification at the schema (width resp. length of the schema under `c`). (`HashTreeRoot`:
`Zrnt.Proofs.C05.checkType_root_leaf`.) -/
theorem checkType_sound_leaf (c : Config)
    (T : GoType) (hT : T ∈ types) (hdev : T.name ∉ knownDeviations.map (·.1)) (sty : STy)
    (hkind : (∃ k, sty = .uint k) ∨ (∃ e, sty = .bytesN e))
    (hschema : Spec.lookup T.name = some sty) :
    ∃ L, denoteLeafCodec c owners views T = some L ∧ L.Meets (sty.eval c) := by
  obtain ⟨o1, o2, o3, o4⟩ := row_methods_not_opaque T hT
  rcases hkind with ⟨k, rfl⟩ | ⟨e, rfl⟩
  · obtain ⟨h1, h2, h3, h4⟩ := extract_uint_codec owners views T k (ssz_methods_agree T hT hdev) hschema
    exact uint_row_sound c owners views k T o1 o2 o3 o4 h1 h2 h3 h4
  · obtain ⟨h1, h2, h3, h4⟩ := extract_bytesN_codec owners views T e (ssz_methods_agree T hT hdev) hschema
    exact bytesN_row_sound c owners views e T o1 o2 o3 o4 h1 h2 h3 h4

open Zrnt.Schema Zrnt.Schema.Facts Zrnt.Gen.SszFacts in
/-- **The soundness theorems cover every row**: each row of the regenerated table has a container schema with a struct
declaration (`checkType_sound_struct`), a list schema (`checkType_sound_list`), a vector schema
(`checkType_sound_vector`), a bitlist / bitvector / byte-list schema (`checkType_sound_bitfield`), or an integer /
byte-array schema (`checkType_sound_leaf`) — no row falls outside (no `bool` or `union` typed Go SSZ type exists). -/
theorem soundness_covers_all_rows : types.all rowKindCovered = true := by decide +kernel

/-- **`common.ReadBitList`** (the bespoke bitlist reader of `AttestationBits.Deserialize`, with ztyp's
`BitlistCheck`): its model accepts exactly the byte strings the specification's `Bitlist[limit]` decoder accepts —
in particular a full-length bitlist whose limit is a multiple of 8 (`limit/8 + 1` bytes), which ztyp's own
`DecodingReader.BitList` refused. The model is also printed as the `model` column of mode `ssz` for bitlist types. -/
theorem readBitList_eq_decode (lim : Nat) (bs : Bytes) : goReadBitList lim bs = (decode (.bitlist lim) bs).isSome :=
  goReadBitList_eq_decode lim bs

/-! ## Non-vacuity: the hypotheses are satisfiable, and the refusals are real -/

open Zrnt.Schema Zrnt.Schema.Facts in
/-- the compositional hypothesis of `checkType_sound_struct` is satisfiable: the environment of specifications -/
example (H : Hash2) (c : Config) (fields : List GoField) :
    EnvOk H c (fun n => match goTypeSTy n with
      | some u => specImpl H (u.eval c)
      | none => default) fields := by
  intro f _ u hu
  simp [hu]


/-- a container with a fixed field, a variable field and a bitlist: `{a: uint16, b: List[uint8, 4], c: Bitlist[5]}` -/
def exTy : Ty := .struct [("a", .uint 2), ("b", .list (.uint 1) 4), ("c", .bitlist 5)]
def exVal : Val := .seq [.num 258, .seq [.num 7, .num 9], .bits [true, false, true]]

example : ∃ c : Zrnt.Schema.Config, (∀ k, 0 < c k) ∧ 4 ≤ c n!"SYNC_COMMITTEE_SIZE" := ⟨fun _ => 4, fun _ => Nat.succ_pos 3, Nat.le_refl 4⟩
open Zrnt.Schema Zrnt.Schema.Facts in
example : sameLen (c n!"MAX_ATTESTATIONS" * c n!"SLOTS_PER_EPOCH") (c n!"SLOTS_PER_EPOCH" * (c n!"MAX_ATTESTATIONS" + 0)) = true ∧
    sameLen (c n!"MAX_ATTESTATIONS") (c n!"MAX_DEPOSITS") = false := by decide +kernel
example : exTy.Legal := by simp [exTy, Ty.struct, Fields.ofList, Ty.Legal, Fields.Legal, Fields.length]
example : WF exTy exVal := by simp [exTy, exVal, Ty.struct, Fields.ofList, WF, WFFields]
example : encode exTy exVal = [2, 1, 10, 0, 0, 0, 12, 0, 0, 0, 7, 9, 13] := by decide
example : (decode exTy [2, 1, 10, 0, 0, 0, 12, 0, 0, 0, 7, 9, 13]).map (encode exTy) = some [2, 1, 10, 0, 0, 0, 12, 0, 0, 0, 7, 9, 13] := by decide
-- refused: truncated, trailing byte, first offset ≠ 10, offsets decreasing, list over its limit, bitlist without delimiter
example : (decode exTy [2, 1, 10, 0, 0, 0, 12, 0, 0, 0, 7, 9]).isNone = true := by decide
example : (decode exTy [2, 1, 11, 0, 0, 0, 12, 0, 0, 0, 7, 9, 13]).isNone = true := by decide
example : (decode exTy [2, 1, 10, 0, 0, 0, 9, 0, 0, 0, 7, 9, 13]).isNone = true := by decide
example : (decode exTy [2, 1, 10, 0, 0, 0, 15, 0, 0, 0, 7, 9, 1, 2, 3, 13]).isNone = true := by decide
example : (decode exTy [2, 1, 10, 0, 0, 0, 12, 0, 0, 0, 7, 9, 0]).isNone = true := by decide
example : (decode exTy [2, 1, 10, 0, 0, 0, 12, 0, 0, 0, 7, 9, 64]).isNone = true := by decide  -- 6 bits > limit 5
example : (decode (.bitvector 4) [0x1f]).isNone = true := by decide
example : (decode .bool [2]).isNone = true := by decide

end Zrnt.Proofs.C04
