import Proofs.Lemmas.Genesis
import Proofs.Lemmas.DepositTree
import Proofs.Lemmas.GenesisRefine
/-!
# C13 — genesis construction equals `initialize_beacon_state_from_eth1`

The specification transcription is `Zrnt.Beacon.Genesis.initialize_beacon_state_from_eth1` /
`is_valid_genesis_state`; the code-shaped model of `phase0.GenesisFromEth1` is
`Zrnt.Beacon.Genesis.Impl.genesisFromEth1`. Both are run against the real Go code on every check
(`zmodel c13`, three-way). The theorems below are about the transcription (what every genesis state
satisfies, for **all** deposit lists) and about the Merkle machinery, parametric in the hash.
-/
namespace Zrnt.Proofs.C13
open Zrnt.Beacon Zrnt.Beacon.Spec Zrnt.Beacon.Genesis Zrnt.Proofs.Genesis Zrnt.Proofs.DepositTree

variable {cfg : Config} {cp : Bool} {hash : Bytes} {time : Nat} {deps : List DepositIn} {s : State}

/-- **Effective balances.** In every genesis state, registry and balances have the same length and every
validator's effective balance is `min(balance − balance mod EFFECTIVE_BALANCE_INCREMENT, MAX_EFFECTIVE_BALANCE)`
of its final balance (the sum of all its deposits) — for all deposit lists. -/
theorem genesis_effective_balance (h : initialize_beacon_state_from_eth1 cfg hash time deps cp = .ok s) :
    s.validators.length = s.balances.length ∧
    ∀ (i : Nat) (v : Validator) (b : Nat), s.validators[i]? = some v → s.balances[i]? = some b →
      v.effective_balance = min (b - b % cfg.EFFECTIVE_BALANCE_INCREMENT) cfg.MAX_EFFECTIVE_BALANCE := by
  obtain ⟨s1, hf, hv, hb, _, _⟩ := initialize_ok_decomp h
  refine ⟨by rw [hv, hb]; simp [hf.len], ?_⟩
  intro i v b hvi hbi
  rw [hv, List.getElem?_zipWith] at hvi
  rw [hb] at hbi
  cases hv1 : s1.validators[i]? with
  | none => simp [hv1] at hvi
  | some v1 =>
    simp only [hv1, hbi] at hvi
    cases hvi
    exact genesisActivate_eff _ _

/-- **Activations.** A genesis validator is activated (eligibility and activation epoch `GENESIS_EPOCH`)
iff its effective balance is `MAX_EFFECTIVE_BALANCE`; otherwise both stay `FAR_FUTURE_EPOCH`. Nobody is
exiting, withdrawable or slashed. -/
theorem genesis_activation (h : initialize_beacon_state_from_eth1 cfg hash time deps cp = .ok s) :
    ∀ v ∈ s.validators,
      (v.effective_balance = cfg.MAX_EFFECTIVE_BALANCE →
        v.activation_eligibility_epoch = GENESIS_EPOCH ∧ v.activation_epoch = GENESIS_EPOCH) ∧
      (v.effective_balance ≠ cfg.MAX_EFFECTIVE_BALANCE →
        v.activation_eligibility_epoch = FAR_FUTURE_EPOCH ∧ v.activation_epoch = FAR_FUTURE_EPOCH) ∧
      v.exit_epoch = FAR_FUTURE_EPOCH ∧ v.withdrawable_epoch = FAR_FUTURE_EPOCH ∧ v.slashed = false := by
  obtain ⟨s1, hf, hv, _, _, _⟩ := initialize_ok_decomp h
  intro v hvm
  rw [hv] at hvm
  obtain ⟨i, hi, rfl⟩ := List.mem_iff_getElem.mp hvm
  simp only [List.getElem_zipWith]
  have hi1 : i < s1.validators.length := by simp [List.length_zipWith] at hi; omega
  have hi2 : i < s1.balances.length := by simp [List.length_zipWith] at hi; omega
  obtain ⟨h1, h2, h3, h4, h5⟩ := hf.far _ (List.getElem_mem hi1)
  obtain ⟨r1, r2, r3, _⟩ := genesisActivate_rest (cfg := cfg) s1.validators[i] s1.balances[i]
  rw [r1, r2, r3]
  rcases genesisActivate_act (cfg := cfg) s1.validators[i] s1.balances[i] with ⟨he, a1, a2⟩ | ⟨he, a1, a2⟩
  · exact ⟨fun _ => ⟨a1, a2⟩, fun hne => absurd he hne, h3, h4, h5⟩
  · exact ⟨fun heq => absurd heq he, fun _ => ⟨a1.trans h1, a2.trans h2⟩, h3, h4, h5⟩

/-- **Top-ups.** A deposit whose pubkey is already in the registry never adds a registry entry (whatever its
signature): the registry is unchanged and the deposited amount is added to that validator's balance. -/
theorem topup_no_new_validator {s s' : State} {d : DepositIn}
    (h : process_deposit cfg cp s d = .ok s') (hmem : d.pubkey ∈ s.validators.map (·.pubkey)) :
    s'.validators = s.validators ∧
    ∃ i b, (s.validators[i]?.map (·.pubkey)) = some d.pubkey ∧ s.balances[i]? = some b ∧
      s'.balances = s.balances.set i (b + d.amount) := by
  rcases process_deposit_cases h with ⟨hn, _⟩ | ⟨hn, _⟩ | ⟨i, b, hs, hb, _, hv, hbal⟩
  · exfalso
    rw [List.findIdx?_eq_none_iff] at hn
    obtain ⟨v, hvm, hpk⟩ := List.mem_map.mp hmem
    simpa [hpk] using hn v hvm
  · exfalso
    rw [List.findIdx?_eq_none_iff] at hn
    obtain ⟨v, hvm, hpk⟩ := List.mem_map.mp hmem
    simpa [hpk] using hn v hvm
  · refine ⟨hv, i, b, ?_, hb, hbal⟩
    obtain ⟨hlt, hp, _⟩ := List.findIdx?_eq_some_iff_getElem.mp hs
    simp only [decide_eq_true_eq] at hp
    simp [List.getElem?_eq_getElem hlt, hp]

/-- Conversely a deposit with a new pubkey adds exactly one entry iff its proof of possession verifies, and is
skipped (registry and balances unchanged) otherwise. -/
theorem new_pubkey_deposit {s s' : State} {d : DepositIn}
    (h : process_deposit cfg cp s d = .ok s') (hnew : d.pubkey ∉ s.validators.map (·.pubkey)) :
    (d.sigValid = true ∧ s'.validators = s.validators ++ [get_validator_from_deposit cfg d] ∧
      s'.balances = s.balances ++ [d.amount]) ∨
    (d.sigValid = false ∧ s'.validators = s.validators ∧ s'.balances = s.balances) := by
  rcases process_deposit_cases h with ⟨_, h1, h2, h3⟩ | ⟨_, h1, h2, h3⟩ | ⟨i, b, hs, _⟩
  · exact .inl ⟨h1, h2, h3⟩
  · exact .inr ⟨h1, h2, h3⟩
  · exfalso
    obtain ⟨hlt, hp, _⟩ := List.findIdx?_eq_some_iff_getElem.mp hs
    simp only [decide_eq_true_eq] at hp
    exact hnew (List.mem_map.mpr ⟨_, List.getElem_mem hlt, hp⟩)

/-- No genesis state contains the same pubkey twice (so "repeated pubkey ⇒ top-up" holds along the whole list). -/
theorem genesis_pubkeys_nodup (h : initialize_beacon_state_from_eth1 cfg hash time deps cp = .ok s) :
    (s.validators.map (·.pubkey)).Nodup := by
  obtain ⟨s1, hf, hv, _, _, _⟩ := initialize_ok_decomp h
  have : s.validators.map (·.pubkey) = s1.validators.map (·.pubkey) := by
    rw [hv]
    apply List.ext_getElem
    · simp [List.length_zipWith, hf.len]
    · intro i h1 h2
      simp only [List.getElem_map, List.getElem_zipWith]
      exact genesisActivate_pubkey _ _
  rw [this]; exact hf.nodup

/-- Genesis time and genesis validators root of every genesis state. -/
theorem genesis_time_and_root (h : initialize_beacon_state_from_eth1 cfg hash time deps cp = .ok s) :
    s.genesis_time = time + cfg.GENESIS_DELAY ∧ s.genesis_validators_root = htrValidators cfg s.validators := by
  obtain ⟨_, _, _, _, ht, hr⟩ := initialize_ok_decomp h
  exact ⟨ht, hr⟩

/-! ## The incremental deposit root -/

section Merkle
open Zrnt.Beacon.Genesis.Merkle
variable {α : Type} (H : α → α → α) (z0 : α) (Z : Nat → α) (lenNode : Nat → α)

/-- **Incremental deposit root.** For every node type, every two-to-one hash `H`, every zero-hash table `Z`
(`Z k` = root of the all-zero tree of height `k`) and every depth: feeding the leaves one by one to the deposit
contract's incremental algorithm (`deposit()`: `Inc.push`, `get_deposit_root()`: `Inc.root`) yields
`mix_in_length(merkleize(leaves, limit = 2^depth), len(leaves))` — the SSZ specification read literally (pad
with zero chunks to `2^depth` leaves, hash the perfect tree, mix in the length) — as long as the tree is not
full. In particular after each deposit `i` the root is the `hash_tree_root` of the first `i + 1` leaves. -/
theorem incremental_deposit_root (hZ : ∀ k, Z k = zeroAt H z0 k) (depth : Nat) (leaves : List α)
    (hlen : leaves.length < 2 ^ depth) :
    (leaves.foldl (Inc.push H) (Inc.empty z0 depth)).root H Z lenNode =
      H (merkleizeSpec H z0 depth leaves) (lenNode leaves.length) := by
  have inv := foldl_push_spec H z0 depth leaves [] (Inc.empty z0 depth) (brInv_empty H z0 depth) (by simpa using hlen)
  simp only [List.nil_append] at inv
  have hc := inv.count
  have := root_spec H z0 Z hZ lenNode inv (by rw [← hc]; exact hlen)
  simpa using this

/-- the same for every prefix: the root after deposit `i` is that of the first `i + 1` leaves -/
theorem incremental_deposit_root_prefix (hZ : ∀ k, Z k = zeroAt H z0 k) (depth : Nat) (leaves : List α)
    (hlen : leaves.length < 2 ^ depth) (i : Nat) :
    ((leaves.take (i + 1)).foldl (Inc.push H) (Inc.empty z0 depth)).root H Z lenNode =
      H (merkleizeSpec H z0 depth (leaves.take (i + 1))) (lenNode (leaves.take (i + 1)).length) :=
  incremental_deposit_root H z0 Z lenNode hZ depth _ (by
    have : (leaves.take (i + 1)).length ≤ leaves.length := by simp [List.length_take]
    omega)

/-- the executable list root used by the specification transcription (`depositListRoot`, `htrValidators`) is the
literal SSZ one -/
theorem listRoot_eq_spec (hZ : ∀ k, Z k = zeroAt H z0 k) (depth : Nat) (l : List α) :
    listRoot H Z lenNode depth l = H (merkleizeSpec H z0 depth l) (lenNode l.length) := by
  unfold listRoot
  rw [treeRootZ_eq_spec H z0 Z hZ]

/-- **Deposit proofs verify against the list root with depth `depth + 1`.** For every leaf `i` of a list of
leaves, the branch made of the siblings of leaf `i` in the (zero-padded) depth-`depth` tree followed by the length
chunk is accepted by the specification's `is_valid_merkle_branch` with depth `depth + 1` and index `i` against
`hash_tree_root(List[…, 2^depth])` of the leaves — this is why `process_deposit` verifies with
`DEPOSIT_CONTRACT_TREE_DEPTH + 1`: the extra level is the `List` length mix-in. -/
theorem deposit_proof_verifies [DecidableEq α] (depth : Nat) (leaves : List α) (i : Nat) (hi : i < leaves.length)
    (hlen : leaves.length ≤ 2 ^ depth) :
    isValidMerkleBranch H (leaves.getD i z0) (proofOf H z0 depth leaves i ++ [lenNode leaves.length]) (depth + 1) i
      (H (merkleizeSpec H z0 depth leaves) (lenNode leaves.length)) = true := by
  have hi2 : i < 2 ^ depth := by omega
  have hplen := proofOf_length H z0 depth leaves i
  unfold isValidMerkleBranch
  simp only [decide_eq_true_eq]
  show pathFold H (proofOf H z0 depth leaves i ++ [lenNode leaves.length]) i (leaves.getD i z0) (depth + 1) = _
  rw [pathFold_succ]
  have hinner : pathFold H (proofOf H z0 depth leaves i ++ [lenNode leaves.length]) i (leaves.getD i z0) depth =
      treeRoot H z0 depth leaves := by
    rw [pathFold_congr H _ (proofOf H z0 depth leaves i) i i _ depth
      (fun k hk v => by simp [List.getD, List.getElem?_append_left (by omega : k < (proofOf H z0 depth leaves i).length)])
      (fun _ _ => rfl)]
    exact pathFold_proofOf H z0 depth leaves i hi2
  have hbit : i / 2 ^ depth % 2 ≠ 1 := by rw [Nat.div_eq_of_lt hi2]; decide
  simp only [hinner, if_neg hbit]
  rw [merkleizeSpec, treeRoot_append_replicate]
  congr 1
  simp [List.getD, hplen]

end Merkle

/-- Instance for SHA-256 and the deposit tree: the root the code-shaped model maintains incrementally is the
specification's `hash_tree_root(List[DepositData, 2^32])` of the same leaves. -/
theorem inc_root_eq_depositListRoot (leaves : List Bytes) (hlen : leaves.length < 2 ^ 32) :
    (leaves.foldl (Merkle.Inc.push H2) (Merkle.Inc.empty ZERO32 DEPOSIT_CONTRACT_TREE_DEPTH)).root H2 zeroFn lenNode =
      depositListRoot leaves := by
  rw [depositListRoot, listRoot_eq_spec H2 ZERO32 zeroFn lenNode zeroFn_eq,
    incremental_deposit_root H2 ZERO32 zeroFn lenNode zeroFn_eq DEPOSIT_CONTRACT_TREE_DEPTH leaves hlen]

/-! ## The code-shaped model of `GenesisFromEth1` / `KickStart` against the specification -/

/-- **`GenesisFromEth1` equals the specification (partial: the overflow-free domain).** For every eth1 block hash,
timestamp and deposit list with `eth1_timestamp + GENESIS_DELAY < 2^64`, fewer than `2^32` deposits and a total
deposited amount below `2^64` Gwei, the code-shaped model of `phase0.GenesisFromEth1` (incremental deposit root,
`ProcessDeposit` through the pubkey lookup, `AddValidator`, activation loop, validators root, context construction)
returns **exactly** the state of `initialize_beacon_state_from_eth1` — the `ignoreSignaturesAndProofs` flag read as
"proofs unchecked, every decodable signature valid" (`adj`) — except that it refuses when that state has fewer
validators than `SLOTS_PER_EPOCH` or no active validator (the two recorded known findings), and it fails exactly
when the specification fails (an invalid deposit proof).
Missing for the full statement: inputs on which the pyspec raises a `uint64` overflow while Go wraps. -/
theorem genesis_eq_spec_partial (cfg : Config) (hash : Bytes) (time : Nat) (deps : List DepositIn) (ignore : Bool)
    (htime : time + cfg.GENESIS_DELAY < 2 ^ 64) (hlen : deps.length < 2 ^ 32) (hsum : amountsSum deps < 2 ^ 64)
    (hspe : 1 ≤ cfg.SLOTS_PER_EPOCH) :
    Impl.genesisFromEth1 cfg hash time deps ignore =
      match initialize_beacon_state_from_eth1 cfg hash time (deps.map (adj ignore)) (!ignore) with
      | .ok s =>
        if s.validators.length < cfg.SLOTS_PER_EPOCH ∨ (get_active_validator_indices s GENESIS_EPOCH).isEmpty = true then none
        else some s
      | .error _ => none :=
  genesisFromEth1_eq_spec cfg hash time deps ignore htime hlen hsum hspe

/-- non-vacuity of the domain hypotheses: the empty deposit list at time 0 satisfies them whenever the configuration does -/
example (cfg : Config) (h : cfg.GENESIS_DELAY < 2 ^ 64) :
    0 + cfg.GENESIS_DELAY < 2 ^ 64 ∧ ([] : List DepositIn).length < 2 ^ 32 ∧ amountsSum [] < 2 ^ 64 :=
  ⟨by omega, by decide, by decide⟩

/-- **KickStart is genesis with proofs ignored and the time overridden (partial: overflow-free domain).**
`KickStartState[WithSignatures]` (model: `Impl.kickStart`, which runs `GenesisFromEth1(…, time 0, deposits, true)` and
then sets the genesis time) returns exactly `kickStartSpec`: the specification's genesis over the same deposits with
proofs unchecked and every decodable signature valid, `genesis_time` replaced — with the same two refusals. -/
theorem kickstart_is_genesis_partial (cfg : Config) (hash : Bytes) (time : Nat) (deps : List DepositIn)
    (hdelay : cfg.GENESIS_DELAY < 2 ^ 64) (hlen : deps.length < 2 ^ 32) (hsum : amountsSum deps < 2 ^ 64)
    (hspe : 1 ≤ cfg.SLOTS_PER_EPOCH) :
    Impl.kickStart cfg hash time deps =
      match kickStartSpec cfg hash time deps with
      | .ok s =>
        if s.validators.length < cfg.SLOTS_PER_EPOCH ∨ (get_active_validator_indices s GENESIS_EPOCH).isEmpty = true then none
        else some s
      | .error _ => none := by
  unfold Impl.kickStart kickStartSpec
  rw [genesisFromEth1_eq_spec cfg hash 0 deps true (by omega) hlen hsum hspe]
  have hadj : deps.map (adj true) = deps.map (fun d => { d with verifyOk := true }) := by
    apply List.map_congr_left; intro d _; simp [adj]
  simp only [hadj, Bool.not_true, bind, Option.bind, Except.bind, pure, Except.pure]
  cases initialize_beacon_state_from_eth1 cfg hash 0 (deps.map fun d => { d with verifyOk := true }) false with
  | error e => rfl
  | ok s =>
    simp only []
    have hact : get_active_validator_indices { s with genesis_time := time } GENESIS_EPOCH = get_active_validator_indices s GENESIS_EPOCH := rfl
    rw [hact]
    by_cases hc : s.validators.length < cfg.SLOTS_PER_EPOCH ∨ (get_active_validator_indices s GENESIS_EPOCH).isEmpty = true
    · rw [if_pos hc, if_pos hc]
    · rw [if_neg hc, if_neg hc]

/-- **The genesis-validity predicate agrees with the specification's.** The code-shaped model of
`phase0.IsValidGenesisState` (genesis-time test, then a counting loop over the registry with `IsActive`) equals the
literal `is_valid_genesis_state` (`len(get_active_validator_indices(state, GENESIS_EPOCH))`), for every state and
configuration. Both are run against the real function on every check (model column / spec column of `valid=`). -/
theorem isValidGenesis_eq_spec (cfg : Config) (s : State) :
    Impl.isValidGenesisState cfg s = is_valid_genesis_state cfg s :=
  isValidGenesisState_eq_spec cfg s

/-- non-vacuity: the construction succeeds (here: on the empty deposit list) -/
example (cfg : Config) (hash : Bytes) (h : 5 + cfg.GENESIS_DELAY < 2 ^ 64) :
    ∃ s, initialize_beacon_state_from_eth1 cfg hash 5 [] = .ok s := by
  unfold initialize_beacon_state_from_eth1 u64
  simp only [h, ite_true, bind, Except.bind, pure, Except.pure, processGenesisDeposits]
  exact ⟨_, rfl⟩

end Zrnt.Proofs.C13
