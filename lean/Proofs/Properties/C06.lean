import Proofs.Lemmas.Shuffle
import Proofs.Lemmas.ShuffleList
import Proofs.Lemmas.ShufflePerm
import Proofs.Lemmas.Sha256Size
/-!
# C06 — list shuffling is the spec's swap-or-not permutation and is invertible

Theorems about the code-shaped model `Zrnt.Shuffle` of `eth2/beacon/common/shuffle.go` (tie H: the
model is run against the real `PermuteIndex`/`UnpermuteIndex`/`ShuffleList`/`UnshuffleList` with real
SHA-256 on every check). Every theorem holds for **every hash** (`h : Hasher` is arbitrary; the
spec-equality theorems take an arbitrary `H : ByteArray → ByteArray` with 32-byte outputs), every
seed, every round count, every size — with these two domain conditions, both forced by the code:

* `n ≤ 2^63`: `innerPermuteIndex` computes `pivot + (listSize - index)` in wrapping `uint64`
  arithmetic; above `2^63` the sum wraps and the function stops being injective (`example` at the end).
  Go slices have `len < 2^63`, so for the list functions this is no restriction.
* `n ≤ 2^40` for equality with the specification: the spec's `uint32(position // 256)` rejects larger
  positions (the code truncates instead). `2^40` is `VALIDATOR_REGISTRY_LIMIT`.
-/
namespace Zrnt.Proofs.C06
open Zrnt Zrnt.Shuffle Zrnt.Proofs.Shuffle

/-! ## per-index functions: mutually inverse bijections on `[0, n)` -/

/-- the pair partner `flip = (pivot + n − x) mod n` is an involution on `[0,n)` -/
theorem flip_involutive {p n x : Nat} (hp : p < n) (hx : x < n) :
    flipOf p n x < n ∧ flipOf p n (flipOf p n x) = x :=
  ⟨flipOf_lt (by omega), Shuffle.flip_involutive hp hx⟩

/-- one swap-or-not round of `innerPermuteIndex` (any hash, any round) is an involution on `[0,n)` -/
theorem round_involutive (h : Hasher) {n r x : Nat} (hx : x < n) (hn : n ≤ 2 ^ 63) :
    permRound h n r x < n ∧ permRound h n r (permRound h n r x) = x := by
  refine ⟨?_, permRound_involutive hx hn⟩
  rw [permRound_eq_sigma hx hn]; exact sigma_lt hx

/-- `PermuteIndex` returns (no panic) and stays in range -/
theorem permute_lt (h : Hasher) {rounds x n : Nat} (hx : x < n) (hn : n ≤ 2 ^ 63) :
    ∃ p, permuteIndex h rounds x n = .ok p ∧ p < n :=
  ⟨_, innerPermuteIndex_up (by omega), permUp_lt hn rounds x hx⟩

theorem unpermute_lt (h : Hasher) {rounds x n : Nat} (hx : x < n) (hn : n ≤ 2 ^ 63) :
    ∃ p, unpermuteIndex h rounds x n = .ok p ∧ p < n :=
  ⟨_, innerPermuteIndex_down (by omega), permDown_lt hn rounds x hx⟩

/-- `UnpermuteIndex (PermuteIndex x) = x` -/
theorem unpermute_permute (h : Hasher) {rounds x n : Nat} (hx : x < n) (hn : n ≤ 2 ^ 63) :
    ∃ p, permuteIndex h rounds x n = .ok p ∧ unpermuteIndex h rounds p n = .ok x := by
  refine ⟨_, innerPermuteIndex_up (by omega), ?_⟩
  unfold unpermuteIndex
  rw [innerPermuteIndex_down (by omega), permDown_permUp hn rounds x hx]

/-- `PermuteIndex (UnpermuteIndex x) = x` -/
theorem permute_unpermute (h : Hasher) {rounds x n : Nat} (hx : x < n) (hn : n ≤ 2 ^ 63) :
    ∃ p, unpermuteIndex h rounds x n = .ok p ∧ permuteIndex h rounds p n = .ok x := by
  refine ⟨_, innerPermuteIndex_down (by omega), ?_⟩
  unfold permuteIndex
  rw [innerPermuteIndex_up (by omega), permUp_permDown hn rounds x hx]

/-- `PermuteIndex` is a bijection of `[0,n)`: injective, and every index below `n` is hit -/
theorem permute_bijective (h : Hasher) {rounds n : Nat} (hn : n ≤ 2 ^ 63) :
    (∀ x y, x < n → y < n → permuteIndex h rounds x n = permuteIndex h rounds y n → x = y) ∧
    (∀ y, y < n → ∃ x, x < n ∧ permuteIndex h rounds x n = .ok y) := by
  constructor
  · intro x y hx hy e
    obtain ⟨p, hp, hq⟩ := unpermute_permute h (rounds := rounds) hx hn
    obtain ⟨p', hp', hq'⟩ := unpermute_permute h (rounds := rounds) hy hn
    rw [hp, hp'] at e
    have : p = p' := by injection e
    subst this
    rw [hq] at hq'
    injection hq'
  · intro y hy
    obtain ⟨p, hp, hq⟩ := permute_unpermute h (rounds := rounds) hy hn
    obtain ⟨p', hp', hlt⟩ := unpermute_lt h (rounds := rounds) hy hn
    rw [hp] at hp'
    have : p = p' := by injection hp'
    subst this
    exact ⟨p, hlt, hq⟩

/-- `PermuteIndex` **is** the specification's `compute_shuffled_index`, for every hash function with
32-byte output, every seed, every round count a `uint8` can hold, every index of every list size in
the specification's domain. -/
theorem permuteIndex_eq_spec (H : ByteArray → ByteArray) (hH : ∀ x, (H x).size = 32) (seed : ByteArray)
    {rounds x n : Nat} (hr : rounds ≤ 255) (hx : x < n) (hn : n ≤ 2 ^ 40) :
    ∃ v, Spec.computeShuffledIndex H rounds x n seed = some v ∧
      permuteIndex (Hasher.ofHash H seed) rounds x n = .ok v := by
  refine ⟨_, ?_, innerPermuteIndex_up (by omega)⟩
  rw [spec_unfold H rounds x n seed hx]
  exact foldlM_spec_eq hH hn rounds x (by omega) hx

/-! ## the whole-list functions -/

/-- **the hash cache of the inner loops is exact.** Started as the code starts it (`source`/`byteV`
taken at the first `j`), the loop that re-hashes only when `j & 0xff = 0xff` and re-reads the byte only
when `j & 7 = 7` performs, at every iteration, the swap decided by the specification's bit for position
`j` (`bitAt h r j` = bit `j mod 8` of byte `(j mod 256)/8` of `hash(seed ‖ r ‖ le32(j/256))`). -/
theorem cache_invariant {α : Type} (h : Hasher) (r k i j : Nat) (a : Array α) (hk : k ≤ j + 1) :
    segLoop h r k i j (h.blockOf r (u32 (j >>> 8)))
      (byteAt (h.blockOf r (u32 (j >>> 8))) ((j &&& 0xff) >>> 3)) a = segSimple h r k i j a :=
  segLoop_eq_segSimple h r k i j _ _ a hk (cacheInv_init h r j)

/-- the invariant itself is preserved by a loop step (the off-by-one-prone part) -/
theorem cache_invariant_step (h : Hasher) (r j : Nat) (source : ByteArray) (byteV : Nat) (hj : 1 ≤ j)
    (hinv : CacheInv h r j source byteV) :
    let source' := if j &&& 0xff = 0xff then h.blockOf r (u32 (j >>> 8)) else source
    let byteV' := if j &&& 0x7 = 0x7 then byteAt source' ((j &&& 0xff) >>> 3) else byteV
    source' = h.blockOf r (u32 (j >>> 8)) ∧
    byteV' = byteAt (h.blockOf r (u32 (j >>> 8))) ((j &&& 0xff) >>> 3) ∧
    CacheInv h r (j - 1) source' byteV' := by
  obtain ⟨hs, hb⟩ := hinv
  have hsrc : (if j &&& 0xff = 0xff then h.blockOf r (u32 (j >>> 8)) else source) = h.blockOf r (u32 (j >>> 8)) := by
    split
    · rfl
    · exact hs ‹_›
  simp only [hsrc]
  have hbyte : (if j &&& 0x7 = 0x7 then byteAt (h.blockOf r (u32 (j >>> 8))) ((j &&& 0xff) >>> 3) else byteV)
      = byteAt (h.blockOf r (u32 (j >>> 8))) ((j &&& 0xff) >>> 3) := by
    split
    · rfl
    · exact hb ‹_›
  simp only [hbyte]
  refine ⟨trivial, trivial, ?_, ?_⟩
  · intro hne
    rw [and255] at hne
    have : (j - 1) >>> 8 = j >>> 8 := by rw [shr8, shr8]; omega
    rw [this]
  · intro hne
    rw [and7] at hne
    have h1 : (j - 1) >>> 8 = j >>> 8 := by rw [shr8, shr8]; omega
    have h2 : ((j - 1) &&& 0xff) >>> 3 = (j &&& 0xff) >>> 3 := by
      rw [and255, and255, shr3, shr3]; omega
    rw [h1, h2]

/-- after one list round, position `x` holds what was at `σ_r x` (the per-index round) -/
theorem roundList_eq {α : Type} (h : Hasher) (r : Nat) (a : Array α) (hn : 0 < a.size) (hn63 : a.size ≤ 2 ^ 63) :
    (listRound h r a).size = a.size ∧
    ∀ x, x < a.size → (listRound h r a)[x]? = a[permRound h a.size r x]? := by
  obtain ⟨s, g⟩ := listRound_spec h r a hn
  exact ⟨s, fun x hx => by rw [g x hx, permRound_eq_sigma hx hn63]⟩

/-- `(UnshuffleList L)[k] = L[PermuteIndex k]` for every position -/
theorem unshuffleList_eq_map {α : Type} (h : Hasher) (rounds : Nat) (a : Array α) (hn : a.size ≤ 2 ^ 63) :
    (unshuffleList h rounds a).size = a.size ∧
    ∀ k, k < a.size → ∃ p, permuteIndex h rounds k a.size = .ok p ∧ p < a.size ∧
      (unshuffleList h rounds a)[k]? = a[p]? := by
  obtain ⟨s, g⟩ := unshuffleList_spec h rounds a hn
  exact ⟨s, fun k hk => ⟨_, innerPermuteIndex_up (by omega), permUp_lt hn rounds k hk, g k hk⟩⟩

/-- `(ShuffleList L)[k] = L[UnpermuteIndex k]` for every position -/
theorem shuffleList_eq_map {α : Type} (h : Hasher) (rounds : Nat) (a : Array α) (hn : a.size ≤ 2 ^ 63) :
    (shuffleList h rounds a).size = a.size ∧
    ∀ k, k < a.size → ∃ p, unpermuteIndex h rounds k a.size = .ok p ∧ p < a.size ∧
      (shuffleList h rounds a)[k]? = a[p]? := by
  obtain ⟨s, g⟩ := shuffleList_spec h rounds a hn
  exact ⟨s, fun k hk => ⟨_, innerPermuteIndex_down (by omega), permDown_lt hn rounds k hk, g k hk⟩⟩

/-- the statement of the property, against the specification function itself:
`(UnshuffleList L)[k] = L[compute_shuffled_index(k)]` and `(ShuffleList L)[compute_shuffled_index(k)] = L[k]` -/
theorem lists_eq_spec {α : Type} (H : ByteArray → ByteArray) (hH : ∀ x, (H x).size = 32) (seed : ByteArray)
    {rounds : Nat} (hr : rounds ≤ 255) (a : Array α) (hn : a.size ≤ 2 ^ 40) :
    ∀ k, k < a.size → ∃ v, Spec.computeShuffledIndex H rounds k a.size seed = some v ∧ v < a.size ∧
      (unshuffleList (Hasher.ofHash H seed) rounds a)[k]? = a[v]? ∧
      (shuffleList (Hasher.ofHash H seed) rounds a)[v]? = a[k]? := by
  intro k hk
  have hn63 : a.size ≤ 2 ^ 63 := by omega
  obtain ⟨v, hv, hp⟩ := permuteIndex_eq_spec H hH seed hr hk hn
  obtain ⟨_, g⟩ := unshuffleList_spec (Hasher.ofHash H seed) rounds a hn63
  obtain ⟨_, g'⟩ := shuffleList_spec (Hasher.ofHash H seed) rounds a hn63
  have e : v = permUp (Hasher.ofHash H seed) a.size rounds k := by
    have := innerPermuteIndex_up (h := Hasher.ofHash H seed) (rounds := rounds) (x := k) (n := a.size) (by omega)
    unfold permuteIndex at hp
    rw [this] at hp
    injection hp with hp; exact hp.symm
  have hvlt : v < a.size := by rw [e]; exact permUp_lt hn63 rounds k hk
  refine ⟨v, hv, hvlt, ?_, ?_⟩
  · rw [g k hk, e]
  · rw [g' v hvlt, e, permDown_permUp hn63 rounds k hk]

/-- `ShuffleList (UnshuffleList L) = L` -/
theorem shuffle_unshuffle {α : Type} (h : Hasher) (rounds : Nat) (a : Array α) (hn : a.size ≤ 2 ^ 63) :
    shuffleList h rounds (unshuffleList h rounds a) = a := by
  obtain ⟨s, g⟩ := unshuffleList_spec h rounds a hn
  obtain ⟨s', g'⟩ := shuffleList_spec h rounds (unshuffleList h rounds a) (by omega)
  apply Array.ext_getElem?
  intro k
  by_cases hk : k < a.size
  · rw [g' k (by omega), s, g _ (permDown_lt hn rounds k hk), permUp_permDown hn rounds k hk]
  · rw [Array.getElem?_eq_none (by omega), Array.getElem?_eq_none (by omega)]

/-- `UnshuffleList (ShuffleList L) = L` -/
theorem unshuffle_shuffle {α : Type} (h : Hasher) (rounds : Nat) (a : Array α) (hn : a.size ≤ 2 ^ 63) :
    unshuffleList h rounds (shuffleList h rounds a) = a := by
  obtain ⟨s, g⟩ := shuffleList_spec h rounds a hn
  obtain ⟨s', g'⟩ := unshuffleList_spec h rounds (shuffleList h rounds a) (by omega)
  apply Array.ext_getElem?
  intro k
  by_cases hk : k < a.size
  · rw [g' k (by omega), s, g _ (permUp_lt hn rounds k hk), permDown_permUp hn rounds k hk]
  · rw [Array.getElem?_eq_none (by omega), Array.getElem?_eq_none (by omega)]

/-- the result of `ShuffleList` is a permutation of the input: nothing lost, nothing duplicated -/
theorem shuffleList_perm {α : Type} (h : Hasher) (rounds : Nat) (a : Array α) (hn : a.size ≤ 2 ^ 63) :
    (shuffleList h rounds a).toList.Perm a.toList := by
  obtain ⟨s, g⟩ := shuffleList_spec h rounds a hn
  exact perm_of_index_bijection a _ (permDown h a.size rounds) (permUp h a.size rounds) s
    (permDown_lt hn rounds) (permUp_lt hn rounds) (permUp_permDown hn rounds) (permDown_permUp hn rounds) g

theorem unshuffleList_perm {α : Type} (h : Hasher) (rounds : Nat) (a : Array α) (hn : a.size ≤ 2 ^ 63) :
    (unshuffleList h rounds a).toList.Perm a.toList := by
  obtain ⟨s, g⟩ := unshuffleList_spec h rounds a hn
  exact perm_of_index_bijection a _ (permUp h a.size rounds) (permDown h a.size rounds) s
    (permUp_lt hn rounds) (permDown_lt hn rounds) (permDown_permUp hn rounds) (permUp_permDown hn rounds) g

/-! ## the concrete hash: SHA-256 (the `hH` hypothesis discharged by `sha256_size`) -/

theorem permuteIndex_eq_spec_sha256 (seed : ByteArray) {rounds x n : Nat} (hr : rounds ≤ 255) (hx : x < n) (hn : n ≤ 2 ^ 40) :
    ∃ v, Spec.computeShuffledIndex Zrnt.Sha256.hash rounds x n seed = some v ∧
      permuteIndex (Hasher.ofHash Zrnt.Sha256.hash seed) rounds x n = .ok v :=
  permuteIndex_eq_spec _ sha256_size seed hr hx hn

theorem lists_eq_spec_sha256 {α : Type} (seed : ByteArray) {rounds : Nat} (hr : rounds ≤ 255) (a : Array α)
    (hn : a.size ≤ 2 ^ 40) :
    ∀ k, k < a.size → ∃ v, Spec.computeShuffledIndex Zrnt.Sha256.hash rounds k a.size seed = some v ∧ v < a.size ∧
      (unshuffleList (Hasher.ofHash Zrnt.Sha256.hash seed) rounds a)[k]? = a[v]? ∧
      (shuffleList (Hasher.ofHash Zrnt.Sha256.hash seed) rounds a)[v]? = a[k]? :=
  lists_eq_spec _ sha256_size seed hr a hn

/-! ## non-vacuity: the hypotheses are satisfiable and the statements have content at `n = 257`
(one element beyond a 256-block), with the pivot at either end -/

/-- a concrete hash source: constant raw pivot, every bit of every block set (every pair swaps) -/
def allOnes (pivot : Nat) : Hasher where
  pivotRaw _ := pivot
  blockOf _ _ := ⟨Array.replicate 32 255⟩

/-- a hash source whose pivots and blocks vary with round and window -/
def varying (pivot : Nat) : Hasher where
  pivotRaw r := pivot + r
  blockOf r w := ⟨Array.replicate 32 (UInt8.ofNat (0x5a + r + w))⟩

-- pivot 0 and pivot n−1, per index
example : permuteIndex (allOnes 0) 1 5 257 = .ok 252 := by decide +kernel
example : permuteIndex (allOnes 256) 1 5 257 = .ok 251 := by decide +kernel
example : permuteIndex (varying 256) 3 256 257 = .ok 0 ∧ unpermuteIndex (varying 256) 3 0 257 = .ok 256 := by
  decide +kernel
-- pivot 0 and pivot n−1, whole list: position k of the un-shuffled list holds L[permute k]
example : (unshuffleList (allOnes 0) 1 (Array.range 257))[5]? = some 252 := by decide +kernel
example : (unshuffleList (allOnes 256) 1 (Array.range 257))[5]? = some 251 := by decide +kernel
example : (unshuffleList (varying 256) 3 (Array.range 257))[256]? = some 0 ∧
    (shuffleList (varying 256) 3 (Array.range 257))[0]? = some 256 := by decide +kernel
example : (257 : Nat) ≤ 2 ^ 40 ∧ (257 : Nat) ≤ 2 ^ 63 := by decide

/-- the bound `n ≤ 2^63` of the per-index theorems cannot be dropped: for `listSize = 2^64 − 1` the
wrapping sum `pivot + (listSize − index)` sends two different indices to the same place. (Outside the
specification's domain — the pyspec's checked `uint64` addition rejects such inputs — and beyond any
slice length; recorded here, not a finding.) -/
example : permuteIndex (allOnes (2 ^ 64 - 2)) 1 (2 ^ 64 - 2) (2 ^ 64 - 1) = .ok 0 ∧
    permuteIndex (allOnes (2 ^ 64 - 2)) 1 (2 ^ 64 - 3) (2 ^ 64 - 1) = .ok 0 := by decide +kernel

end Zrnt.Proofs.C06
