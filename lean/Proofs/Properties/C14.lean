import Proofs.Lemmas.ForkAt
import Proofs.Lemmas.UpgradeChain
import Proofs.Lemmas.Domain
import Zrnt.Gen.GoFuns
import Zrnt.Gen.Configs
import Zrnt.Config.Constants
/-!
# C14 — built-in configurations are the spec's; fork lookups agree for every epoch

* `forkVersion_eq_forkAt` is about `Zrnt.Gen.GoFuns.ForkVersion`, **regenerated from
  `eth2/beacon/common/spec.go` on every run** (tie R-fun), for every monotone schedule and every slot.
  On the tree as found the theorem was false (Capella branch missing; witness kept in
  `seeded/selftest/c14/forkversion_unfixed_witness.lean.txt`, proved by `decide` against the then
  regenerated function); /repo commit b8e0d35 repairs it.
* the `…_table` theorems pin the regenerated fork tables of `eth2/beacon/fork.go` (tie R-fact,
  `Zrnt.Gen.Configs`) by `decide`; the semantic theorems are about the code-shaped models of
  `Zrnt.Config.ForkModel` instantiated with those tables.
* `*_constants_eq`: the regenerated YAML / Go constant tables against the hand-transcribed oracle
  `Zrnt.Config.Constants` (trusted base).
The specification side is `forkAt` (`Zrnt.Config.Spec`): latest fork whose epoch is `≤ epoch`.
-/
namespace Zrnt.Proofs.C14
open Zrnt Zrnt.Gen.GoFuns Zrnt.Config Zrnt.Proofs.ForkAt Zrnt.Proofs.Upgrade Zrnt.Proofs.Domain

/-- the schedule a (regenerated) `Spec` record carries -/
def scheduleOf (s : Spec) : Schedule :=
  { genesisVersion := s.GENESIS_FORK_VERSION, altairVersion := s.ALTAIR_FORK_VERSION,
    bellatrixVersion := s.BELLATRIX_FORK_VERSION, capellaVersion := s.CAPELLA_FORK_VERSION,
    denebVersion := s.DENEB_FORK_VERSION, electraVersion := s.ELECTRA_FORK_VERSION,
    fuluVersion := s.FULU_FORK_VERSION, altairEpoch := s.ALTAIR_FORK_EPOCH,
    bellatrixEpoch := s.BELLATRIX_FORK_EPOCH, capellaEpoch := s.CAPELLA_FORK_EPOCH,
    denebEpoch := s.DENEB_FORK_EPOCH, electraEpoch := s.ELECTRA_FORK_EPOCH, fuluEpoch := s.FULU_FORK_EPOCH }

/-! ## Fork version -/

/-- **`Spec.ForkVersion`** returns, for every configuration with non-decreasing fork epochs (equal,
adjacent and never-activated forks included) and every slot, the version of the latest fork whose
epoch is `≤` the slot's epoch; it never errs or panics for `SLOTS_PER_EPOCH ≠ 0`. -/
theorem forkVersion_eq_forkAt (spec : Spec) (slot : UInt64)
    (hspe : spec.SLOTS_PER_EPOCH ≠ 0) (hmono : (scheduleOf spec).Monotone) :
    ForkVersion spec slot =
      .ok (versionAt (scheduleOf spec) (slot.toNat / spec.SLOTS_PER_EPOCH.toNat)) := by
  have he : (slot / spec.SLOTS_PER_EPOCH).toNat = slot.toNat / spec.SLOTS_PER_EPOCH.toNat := UInt64.toNat_div ..
  unfold versionAt
  rw [forkAt_cases _ hmono, ← he]
  simp only [ForkVersion, SlotToEpoch, Res.udiv, hspe, if_false]
  generalize slot / spec.SLOTS_PER_EPOCH = e
  simp only [bind, Res.bind, pure, decide_eq_true_eq, UInt64.lt_iff_toNat_lt, scheduleOf]
  split <;> (try split) <;> (try split) <;> (try split) <;> (try split) <;> (try split) <;>
    simp [Schedule.versionOf, *]

/-- non-vacuity: a monotone schedule with equal (bellatrix = capella), adjacent (deneb = capella + 1) and
never-activated (fulu) forks; the slot lies in the Capella interval (the branch that was missing) -/
def exampleSpec : Spec :=
  { (default : Spec) with
    SLOTS_PER_EPOCH := 8, GENESIS_FORK_VERSION := 0xa0, ALTAIR_FORK_VERSION := 0xa1,
    BELLATRIX_FORK_VERSION := 0xa2, CAPELLA_FORK_VERSION := 0xa3, DENEB_FORK_VERSION := 0xa4,
    ELECTRA_FORK_VERSION := 0xa5, FULU_FORK_VERSION := 0xa6, ALTAIR_FORK_EPOCH := 2,
    BELLATRIX_FORK_EPOCH := 5, CAPELLA_FORK_EPOCH := 5, DENEB_FORK_EPOCH := 6, ELECTRA_FORK_EPOCH := 9,
    FULU_FORK_EPOCH := 0xFFFFFFFFFFFFFFFF }

example :
    exampleSpec.SLOTS_PER_EPOCH ≠ 0 ∧ (scheduleOf exampleSpec).Monotone ∧
    ForkVersion exampleSpec 47 = .ok 0xa3 ∧ ForkVersion exampleSpec 48 = .ok 0xa4 ∧
    ForkVersion exampleSpec 39 = .ok 0xa1 ∧ ForkVersion exampleSpec 0xFFFFFFFFFFFFFFFF = .ok 0xa5 := by decide

/-! ## Fork digest and block allocation (`ForkDecoder`) -/

/-- the regenerated `ForkDecoder.ForkDigest` chain, `NewForkDecoder` literal and `BlockAllocator` switch have
exactly the expected rows (each fork epoch compared in order; each field holding its own fork's digest) -/
theorem forkDecoder_tables :
    interpChain Gen.Configs.forkDigestChain Gen.Configs.forkDigestDefault =
      some ([(.altair, .phase0), (.bellatrix, .altair), (.capella, .bellatrix), (.deneb, .capella),
             (.electra, .deneb), (.fulu, .electra)], .fulu) ∧
    interpDecoder Gen.Configs.newForkDecoder = some (Fork.all.map fun f => (f, f)) ∧
    interpAllocator Gen.Configs.blockAllocator = some ((Fork.all.take 6).map fun f => (f, f)) := by
  decide +kernel

theorem genChain_eq : genChain = ([(.altair, .phase0), (.bellatrix, .altair), (.capella, .bellatrix), (.deneb, .capella),
             (.electra, .deneb), (.fulu, .electra)], .fulu) := by
  unfold genChain; rw [forkDecoder_tables.1]; rfl

theorem genDecoder_eq : genDecoder = Fork.all.map fun f => (f, f) := by
  unfold genDecoder; rw [forkDecoder_tables.2.1]; rfl

theorem genAllocator_eq : genAllocator = (Fork.all.take 6).map fun f => (f, f) := by
  unfold genAllocator; rw [forkDecoder_tables.2.2]; rfl

/-- **`ForkDecoder.ForkDigest`**: for every monotone schedule and every epoch the chain selects the decoder
field of `forkAt`, and that field is initialised from that fork's own version. -/
theorem forkDigest_eq_forkAt (c : Schedule) (h : c.Monotone) (epoch : UInt64) :
    evalChain c epoch.toNat genChain.1 genChain.2 = forkAt c epoch.toNat ∧
    ∀ f, (genDecoder.find? (·.1 == f)).map (·.2) = some f := by
  constructor
  · rw [genChain_eq, forkAt_cases c h]
    simp only [evalChain, Schedule.epochOf]
    rfl
  · rw [genDecoder_eq]; intro f; cases f <;> decide

/-- **`BlockAllocator`** is the inverse of the digest assignment: given pairwise different digests, the
digest of fork `f` allocates the block type of `f` (for the forks that have a block type, phase0…electra),
and the Fulu digest — like any unknown digest — is refused. -/
theorem allocator_inverse {δ : Type} [DecidableEq δ] (digestOf : Fork → δ)
    (hinj : ∀ f g, digestOf f = digestOf g → f = g) (f : Fork) :
    allocate genAllocator digestOf (digestOf f) = if f = .fulu then none else some f := by
  have ne : ∀ a b : Fork, a ≠ b → (digestOf a = digestOf b) = False := fun a b hab =>
    eq_false (fun h => hab (hinj a b h))
  rw [genAllocator_eq]
  cases f <;> simp [allocate, Fork.all, List.find?, ne]

theorem allocator_unknown {δ : Type} [DecidableEq δ] (digestOf : Fork → δ) (d : δ)
    (h : ∀ f, f ≠ .fulu → digestOf f ≠ d) : allocate genAllocator digestOf d = none := by
  rw [genAllocator_eq]
  simp [allocate, Fork.all, List.find?, h]

/-- non-vacuity of `hinj`: the mainnet versions 0…6 give pairwise different "digests" -/
example : ∀ f g : Fork, Fork.idx f = Fork.idx g → f = g := by intro f g; cases f <;> cases g <;> decide

/-! ## Block ⇄ envelope -/

/-- **Envelope round trip** (tables regenerated from each fork's `block.go` and from
`EnvelopeToSignedBeaconBlock`): for every fork that has a block type, `Header` copies slot, proposer, parent
and state root and takes the body's hash-tree-root; `Envelope` stores that header, a pointer to the body,
the header's root as block root, the signature and the digest it was given;
`EnvelopeToSignedBeaconBlock` dispatches on the body's own type to the same fork's block type and copies
every field back: the composition is the identity on (slot, proposer, parent root, state root, body,
signature). (That the header's root equals the block's root is the SSZ fact of C05.) -/
theorem envelope_roundtrip : ∀ f ∈ Fork.all.take 6, roundTripOk f.name = true := by
  decide +kernel

/-! ## Envelope signature check -/

/-- model of `BeaconBlockEnvelope.VerifySignature`: the version comes from the regenerated `ForkVersion`
of the envelope's slot, then `VerifySignatureVersioned` (`Zrnt.Config.verifyEnvelopeVersioned`) -/
def verifyEnvelope (H : ByteArray → ByteArray) (bls : ByteArray → Bool) (spec : Spec) (slot : UInt64)
    (gvr : ByteArray) (envProposer proposer : UInt64) (envDigest blockRoot : ByteArray) : Res Bool :=
  match ForkVersion spec slot with
  | .ok v => .ok (verifyEnvelopeVersioned H bls v gvr envProposer proposer envDigest blockRoot)
  | .err => .err | .panic => .panic | .outOfFuel => .outOfFuel

/-- `compute_domain` separates (fork version, genesis validators root) pairs: equal domains come from equal
pairs or exhibit a collision of `H` on the 28 bytes the domain keeps (the witness is explicit). -/
theorem domain_separation (H : ByteArray → ByteArray) (dt : ByteArray) (v v' : UInt32) (g g' : ByteArray)
    (h : computeDomain H dt v g = computeDomain H dt v' g') :
    (v = v' ∧ g = g') ∨
    (forkDataInput v g ≠ forkDataInput v' g' ∧
      (H (forkDataInput v g)).extract 0 28 = (H (forkDataInput v' g')).extract 0 28) :=
  Zrnt.Proofs.Domain.domain_separation H dt v v' g g' h

/-- `compute_signing_root` separates domains: equal signing roots of one object root come from equal
domains or exhibit a collision of `H`. -/
theorem signingRoot_separation (H : ByteArray → ByteArray) (r d d' : ByteArray)
    (h : signingRoot H r d = signingRoot H r d') :
    d = d' ∨ (r ++ d ≠ r ++ d' ∧ H (r ++ d) = H (r ++ d')) :=
  Zrnt.Proofs.Domain.signingRoot_separation H r d d' h

/-- **A block signed under the version its slot implies verifies through the envelope check; one signed
under any other version (or for another chain) does not** — unless a hash collision is exhibited.
For every monotone configuration and every slot: take an envelope for `slot` whose fork digest and proposer
signature were made under `(v', g')` (ideal BLS: the signature verifies for exactly the message it was made
over, with the expected proposer's key). `VerifySignature` against genesis validators root `g` never errs,
accepts when `(v', g') = (version of forkAt(epoch(slot)), g)`, and if it accepts then that equality holds
or a collision of `H` (on 28 bytes for the fork-data root, on 32 for the signing root) is exhibited. -/
theorem envelope_signature_version (spec : Spec) (slot : UInt64)
    (hspe : spec.SLOTS_PER_EPOCH ≠ 0) (hmono : (scheduleOf spec).Monotone)
    (H : ByteArray → ByteArray) (v' : UInt32) (g g' root : ByteArray) (p : UInt64) :
    let v := versionAt (scheduleOf spec) (slot.toNat / spec.SLOTS_PER_EPOCH.toNat)
    let signed := signingRoot H root (computeDomain H DOMAIN_BEACON_PROPOSER v' g')
    ∃ accept, verifyEnvelope H (fun m => decide (m = signed)) spec slot g p p (forkDigest H v' g') root = .ok accept ∧
      ((v = v' ∧ g = g') → accept = true) ∧
      (accept = true → (v = v' ∧ g = g') ∨ Collision28 H ∨ Collision H) := by
  intro v signed
  refine ⟨_, ?_, verifyVersioned_iff H v v' g g' root p⟩
  simp only [verifyEnvelope, forkVersion_eq_forkAt spec slot hspe hmono]
  rfl

/-- non-vacuity: with the identity as `H` (collision-free), the mainnet-like example schedule accepts the
Capella-signed envelope at a Capella slot and refuses a Bellatrix-signed one -/
example :
    let g : ByteArray := zeros 32
    let root : ByteArray := zeros 32
    let signedUnder (v : UInt32) := signingRoot id root (computeDomain id DOMAIN_BEACON_PROPOSER v g)
    verifyEnvelope id (fun m => decide (m = signedUnder 0xa3)) exampleSpec 47 g 7 7 (forkDigest id 0xa3 g) root = .ok true ∧
    verifyEnvelope id (fun m => decide (m = signedUnder 0xa2)) exampleSpec 47 g 7 7 (forkDigest id 0xa2 g) root = .ok false := by
  decide +kernel

/-! ## `UpgradeMaybe` -/

/-- the regenerated `UpgradeMaybe` sequence upgrades each state type to the next fork at that fork's first
slot, in fork order; Altair…Deneb build `Fork{previous := pre.current, current := own version, epoch :=
epoch of the slot}`; `UpgradeToElectra` builds nothing (it returns "not supported") -/
theorem upgrade_tables :
    interpUpgrade Gen.Configs.upgradeChain =
      some [(.phase0, .altair, .altair), (.altair, .bellatrix, .bellatrix), (.bellatrix, .capella, .capella),
            (.capella, .deneb, .deneb), (.deneb, .electra, .electra)] ∧
    interpUpgradeFork Gen.Configs.upgradeFork = some [.altair, .bellatrix, .capella, .deneb] := by
  decide +kernel

theorem genUpgrade_eq : genUpgrade = chain5 := by unfold genUpgrade; rw [upgrade_tables.1]; rfl
theorem genSupported_eq : genSupported = sup4 := by unfold genSupported; rw [upgrade_tables.2]; rfl

/-- **State type and `state.fork` along `ProcessSlots`.** The model `processSlots` is the fork-relevant part
of `common.ProcessSlots` (per slot: increment the slot, then `UpgradeMaybe`), instantiated with the
regenerated `UpgradeMaybe` chain and the regenerated `Fork{…}` literals of the `UpgradeToX` functions, with
the 64-bit wrapping product `Slot(epoch) * SLOTS_PER_EPOCH` of the source.
For every monotone schedule (equal, adjacent, never-activated forks, forks at epoch 0), started from a
genesis state in the fork active at epoch 0 (`genesisStateOf`: fork record `(v, v, 0)`), after `n` slots
the state type is `forkAt c (epoch n)` and `state.fork` is `(version of the preceding fork, version of
forkAt, epoch of forkAt)` — the genesis record while still in the genesis fork (`specState`).
Hypotheses: the chain stays before Electra (`UpgradeToElectra` is unsupported in the repository and returns
an error); no fork's wrapped 64-bit boundary product falls within the first `n` slots unless it is the
true product (for `FAR_FUTURE_EPOCH * 8` the wrapped value is `2^64 − 8`: holds for every reachable `n`). -/
theorem state_fork_invariant (c : Schedule) (spe : UInt64) (n : Nat)
    (hmono : c.Monotone) (hspe : spe ≠ 0) (hn : n < 2 ^ 64)
    (hwrap : ∀ f : Fork, (c.epochOf f * spe.toNat) % 2 ^ 64 ≤ n → c.epochOf f * spe.toNat < 2 ^ 64)
    (hpre : n / spe.toNat < c.electraEpoch.toNat) :
    processSlots genUpgrade genSupported c spe n (genesisStateOf c) = .ok (specState c spe n) ∧
    (specState c spe n).ty = forkAt c (n / spe.toNat) ∧
    (specState c spe n).cur = c.versionOf (forkAt c (n / spe.toNat)) := by
  have hs : 0 < spe.toNat := by
    rcases Nat.eq_zero_or_pos spe.toNat with h | h
    · exact absurd (UInt64.toNat_inj.mp (by rw [h]; rfl)) hspe
    · exact h
  have hE : n < P c spe .electra := (Nat.div_lt_iff_lt_mul hs).mp hpre
  refine ⟨?_, rfl, rfl⟩
  rw [genUpgrade_eq, genSupported_eq, genesisOf_eq c spe]
  have := run c spe n hmono hs hn hwrap hE n 0 (by omega)
  simpa using this

/-- **The versions recorded in the state name the same fork as the configuration.** `Fork.GetDomain` (the
lookup every signature check of the transition uses: `common.GetDomain(state, domainType, epoch)`) applied
to the fork record the chain has after `n` slots (`state_fork_invariant`) selects, for a message of epoch
`e`, the version of `forkAt c e` — the version `Spec.ForkVersion` reports for the slots of that epoch
(`forkVersion_eq_forkAt`) — for every epoch from the activation epoch of the preceding fork up to the
state's own epoch; in particular at the fork epoch itself it is already the new version, and one epoch
before it is still the old one. (Epochs before the preceding fork are out of the record's reach by
construction: a fork record holds two versions.) -/
theorem stateDomain_eq_forkAt (c : Schedule) (spe : UInt64) (n : Nat)
    (hmono : c.Monotone) (hspe : spe ≠ 0) (hn : n < 2 ^ 64)
    (hwrap : ∀ f : Fork, (c.epochOf f * spe.toNat) % 2 ^ 64 ≤ n → c.epochOf f * spe.toNat < 2 ^ 64)
    (hpre : n / spe.toNat < c.electraEpoch.toNat)
    (e : UInt64) (hup : e.toNat ≤ n / spe.toNat)
    (hlo : forkAt c (n / spe.toNat) = forkAt c 0 ∨ c.epochOf (forkAt c (n / spe.toNat)).pred ≤ e.toNat)
    (H : ByteArray → ByteArray) (domainType gvr : ByteArray) :
    ∃ s, processSlots genUpgrade genSupported c spe n (genesisStateOf c) = .ok s ∧
      domainVersion s e = versionAt c e.toNat ∧
      computeDomain H domainType (domainVersion s e) gvr = computeDomain H domainType (versionAt c e.toNat) gvr := by
  refine ⟨specState c spe n, (state_fork_invariant c spe n hmono hspe hn hwrap hpre).1, ?_, ?_⟩
  · exact stateDomain_eq_forkAt_aux c hmono spe n e hup hlo
  · rw [stateDomain_eq_forkAt_aux c hmono spe n e hup hlo]; rfl

/-- the phase0 genesis zrnt builds (`GenesisFromEth1` / `KickStartState`) is the right genesis exactly when
Altair is not scheduled at epoch 0 -/
theorem phase0_genesis_is_right (c : Schedule) (hmono : c.Monotone) (hgen : c.altairEpoch ≠ 0) :
    genesisState c = genesisStateOf c := by
  apply genesis_eq c hmono
  rcases Nat.eq_zero_or_pos c.altairEpoch.toNat with h | h
  · exact absurd (UInt64.toNat_inj.mp (by rw [h]; rfl)) hgen
  · exact h

/-- **What the code does with Altair (and later forks) scheduled at epoch 0 and a phase0 genesis** — the
case outside `state_fork_invariant`: `UpgradeMaybe` runs only *after* a slot increment, the phase0 → Altair
row fires only at slot `0 * SLOTS_PER_EPOCH = 0`, and every later row needs a later state type; so the
state stays phase0 with the genesis fork record forever (never an error), whatever the other fork epochs
are. This is also what the consensus specification's `process_slots` does (its upgrade runs after the slot
was advanced to the fork's first slot); a later-fork genesis has to be created as such
(`genesisStateOf`; zrnt offers only `UpgradeToX` by hand for that). -/
theorem phase0_genesis_stuck_when_altair_at_genesis (c : Schedule) (spe : UInt64) (n : Nat)
    (ha : c.altairEpoch = 0) (hn : n < 2 ^ 64) :
    processSlots genUpgrade genSupported c spe n (genesisState c) =
      .ok { genesisState c with slot := UInt64.ofNat n } := by
  rw [genUpgrade_eq, genSupported_eq]
  have := stuck_run c spe ha n 0 (by omega)
  simpa [genesisState] using this

/-- non-vacuity: altair = bellatrix at epoch 1 (equal), capella adjacent at 2, deneb at 4, electra/fulu never;
after 37 slots (epoch 4) the chain is a Deneb state with fork (capella version, deneb version, 4) -/
def exampleSchedule : Schedule := {
  genesisVersion := 0xb0, altairVersion := 0xb1, bellatrixVersion := 0xb2, capellaVersion := 0xb3
  denebVersion := 0xb4, electraVersion := 0xb5, fuluVersion := 0xb6
  altairEpoch := 1, bellatrixEpoch := 1, capellaEpoch := 2
  denebEpoch := 4, electraEpoch := 0xFFFFFFFFFFFFFFFF, fuluEpoch := 0xFFFFFFFFFFFFFFFF }

example : exampleSchedule.Monotone ∧ exampleSchedule.altairEpoch ≠ 0 ∧
    (∀ f : Fork, (exampleSchedule.epochOf f * 8) % 2 ^ 64 ≤ 37 → exampleSchedule.epochOf f * 8 < 2 ^ 64) ∧
    37 / 8 < exampleSchedule.electraEpoch.toNat ∧
    specState exampleSchedule 8 37 = { ty := .deneb, prev := 0xb3, cur := 0xb4, epoch := 4, slot := 37 } ∧
    specState exampleSchedule 8 8 = { ty := .bellatrix, prev := 0xb1, cur := 0xb2, epoch := 1, slot := 8 } := by
  refine ⟨by decide, by decide, ?_, by decide, by decide, by decide⟩
  intro f; cases f <;> decide

/-- non-vacuity for a later-fork genesis: altair = bellatrix = 0, capella at 1 -/
example :
    let c : Schedule := { exampleSchedule with altairEpoch := 0, bellatrixEpoch := 0, capellaEpoch := 1 }
    c.Monotone ∧ genesisStateOf c = { ty := .bellatrix, prev := 0xb2, cur := 0xb2, epoch := 0, slot := 0 } ∧
    specState c 8 7 = { ty := .bellatrix, prev := 0xb2, cur := 0xb2, epoch := 0, slot := 7 } ∧
    specState c 8 8 = { ty := .capella, prev := 0xb2, cur := 0xb3, epoch := 1, slot := 8 } := by
  decide

/-- non-vacuity: on the example schedule at slot 37 (Deneb since epoch 4, Capella since 2): epochs 2, 3 use
the Capella version, epoch 4 the Deneb version -/
example : domainVersion (specState exampleSchedule 8 37) 3 = 0xb3 ∧ domainVersion (specState exampleSchedule 8 37) 4 = 0xb4 ∧
    domainVersion (specState exampleSchedule 8 37) 2 = 0xb3 ∧
    exampleSchedule.epochOf (forkAt exampleSchedule (37 / 8)).pred ≤ 2 := by decide

/-! ## Constants -/

open Zrnt.Config.Constants in
/-- the YAML files embedded into `configs.Mainnet` carry exactly the published mainnet constants:
same keys (per file), same values, no duplicates -/
theorem mainnet_constants_eq :
    subTable Gen.Configs.yamlMainnet mainnet = true ∧ subTable mainnet Gen.Configs.yamlMainnet = true ∧
    keysNodup Gen.Configs.yamlMainnet = true := by decide +kernel

open Zrnt.Config.Constants in
theorem minimal_constants_eq :
    subTable Gen.Configs.yamlMinimal minimal = true ∧ subTable minimal Gen.Configs.yamlMinimal = true ∧
    keysNodup Gen.Configs.yamlMinimal = true := by decide +kernel

open Zrnt.Config.Constants in
/-- every specification constant that zrnt carries at the Go level (domain types, participation flag
weights, `FAR_FUTURE_EPOCH`, `DEPOSIT_CONTRACT_TREE_DEPTH`, …) has the published value, and the Go
source declares no SCREAMING_CASE integer constant outside the oracle table -/
theorem go_constants_eq :
    sub2 goLevel Gen.Configs.goConsts = true ∧ sub2 Gen.Configs.goConsts goLevel = true := by decide +kernel

/-- `configs.Mainnet` / `configs.Minimal` decode each preset struct from the file of the same preset and fork -/
theorem embeds_table :
    Gen.Configs.embeds =
      (["Mainnet", "Minimal"].flatMap fun v =>
        (["Phase0", "Altair", "Bellatrix", "Capella", "Deneb", "Electra"].map fun f =>
          (v, f ++ "Preset", f ++ "Preset", "yamls/presets/" ++ v.toLower ++ "/" ++ f.toLower ++ ".yaml")) ++
        [(v, "Config", "Config", "yamls/configs/" ++ v.toLower ++ ".yaml")]) := by decide +kernel

end Zrnt.Proofs.C14
