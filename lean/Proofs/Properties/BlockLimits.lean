import Zrnt.Gen.BlockLimits
/-!
# Per-block operation limits: `CheckLimits` of every fork is the specification's list, and nothing else

`Zrnt.Gen.BlockLimits.rows` is **regenerated from /repo's source on every run** (extract `blocklimits`): for the
`BeaconBlockBody.CheckLimits` of phase0 … deneb, the (list field, limit constant) pairs compared in statements of
the shape `if x := uint64(len(b.F)); x > uint64(spec.C) { return <error> }`, and the number of statements of any
other shape. The specification bounds exactly these lists of a block body (SSZ list limits of `BeaconBlockBody`
and `ExecutionPayload.transactions`; for deneb zrnt also applies `MAX_BLOBS_PER_BLOCK`, which
`process_execution_payload` enforces anyway). A limit taken from a sibling constant, a dropped limit (properties
C03: the spec's invalid blocks are rejected) or an additional condition such as a body-size cap (C01: every valid
block is accepted) changes the table and breaks the theorem.
-/
namespace Zrnt.Proofs.BlockLimits
open Zrnt.Gen.BlockLimits

def base : List (String × String) :=
  [("ProposerSlashings", "MAX_PROPOSER_SLASHINGS"), ("AttesterSlashings", "MAX_ATTESTER_SLASHINGS"),
   ("Attestations", "MAX_ATTESTATIONS"), ("Deposits", "MAX_DEPOSITS"), ("VoluntaryExits", "MAX_VOLUNTARY_EXITS")]

/-- the specification's per-block limits, fork by fork (hand-transcribed from the container definitions) -/
def specLimits : String → List (String × String)
  | "phase0" => base
  | "altair" => base
  | "bellatrix" => base ++ [("ExecutionPayload.Transactions", "MAX_TRANSACTIONS_PER_PAYLOAD")]
  | "capella" => base ++ [("ExecutionPayload.Transactions", "MAX_TRANSACTIONS_PER_PAYLOAD"),
      ("BLSToExecutionChanges", "MAX_BLS_TO_EXECUTION_CHANGES")]
  | "deneb" => base ++ [("ExecutionPayload.Transactions", "MAX_TRANSACTIONS_PER_PAYLOAD"),
      ("BLSToExecutionChanges", "MAX_BLS_TO_EXECUTION_CHANGES"), ("BlobKZGCommitments", "MAX_BLOBS_PER_BLOCK")]
  | _ => []

/-- every fork's `CheckLimits` exists once, compares exactly the specification's (field, limit) pairs — each field
with its own constant — and contains no other condition -/
theorem check_limits_are_the_specs :
    rows.map (·.fork) = ["phase0", "altair", "bellatrix", "capella", "deneb"] ∧
    ∀ r ∈ rows, r.found = 1 ∧ r.limits = specLimits r.fork ∧ r.others = 0 := by decide +kernel

/-- no field is bounded by another field's constant: field and constant names correspond -/
theorem limits_name_their_own_field : ∀ r ∈ rows, ∀ p ∈ r.limits,
    p ∈ specLimits "deneb" := by decide +kernel

end Zrnt.Proofs.BlockLimits
