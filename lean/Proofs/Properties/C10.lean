import Proofs.Lemmas.ForkChoiceSim
import Proofs.Lemmas.ForkChoiceLock
import Proofs.Lemmas.ForkChoiceTotal
import Proofs.Lemmas.ForkChoiceSpecPrune
import Proofs.Lemmas.ForkChoiceW0Bridge
import Zrnt.ForkChoice.Spec
import Zrnt.ForkChoice.Old
/-!
# C10 — justification/finalization updates terminate, prune exactly, and keep the head

Statements about the code-shaped model `Zrnt.ForkChoice` (tie H: modes `fc09`/`fc10`/`fc11` run the same
operation lines on the real Go code, on this model and on the specification `Zrnt.ForkChoice.Spec`).

`ProtoArray.OnPrune` was rewritten in /repo (commit 38d1471: one function; keep the finalized node and its
transition descendants, report every dropped node once, compact the array and renumber every index, atomic when
the sink fails). The theorems below are about the model of that code; what was false of the old code is kept as
`Old.*`: negations proved by `decide` on witness histories against `Zrnt/ForkChoice/Old.lean`, the model of the
code before the rewrite (the same histories are in `corpus/fc10.ops` / `corpus/fc11.ops`).

Layers: `prune_exact`, `sink_once_canonical`, `sink_failure_safe` are about one `OnPrune` call on a state that
satisfies the invariants and is related to a specification state (both are established for every reachable state
of an admissible history: `C09.inv_weights`, `C09.head_eq_ghost`); `updates_refine`, `post_prune_ops_total`,
`retained_queries_unchanged` (C11) are about whole histories.
-/
namespace Zrnt.Proofs.C10
open Zrnt.ForkChoice
open Zrnt.ForkChoice.Spec (Abs)

/-- a root given by its first byte -/
def rt (n : Nat) : Root := n * 256 ^ 31
/-- the 32-byte root `aa 00 … 00 k` -/
def aa (k : Nat) : Root := 0xaa * 256 ^ 31 + k

/-! ## UpdateJustified returns -/

/-- **updateJustified_returns.** `UpdateJustified` returns (nil or error) — it neither blocks on the mutex (the
exported method acquires `mu` once and its helpers use the graph directly) nor loops nor panics — on every instance
that satisfies the invariants (`FI`: structure, chain structure, weights), whatever the checkpoints are: the new
finalized checkpoint may move and the array is then pruned. The invariants hold again afterwards, so the next call
returns as well; a prune cannot be left half done (`sink_failure_safe`). -/
theorem updateJustified_returns (fc : FC) (hh : fc.held = false) (I : FI fc) (t : Root) (j f : Checkpoint)
    (b : Option (List Nat)) :
    fc.updateJustified t j f b ≠ .blocked ∧ fc.updateJustified t j f b ≠ .panic ∧
    (∀ fc', (fc.updateJustified t j f b = .ok fc' () ∨ fc.updateJustified t j f b = .err fc') →
      fc'.held = false ∧ FI fc') := by
  have h := safeI_updateJustified fc hh I t j f b
  revert h
  cases fc.updateJustified t j f b with
  | ok s u => exact fun h => ⟨nofun, nofun, fun fc' e => by rcases e with e | e <;> cases e; exact h⟩
  | err s => exact fun h => ⟨nofun, nofun, fun fc' e => by rcases e with e | e <;> cases e; exact h⟩
  | panic => exact fun h => h.elim
  | blocked => exact fun h => h.elim

/-- the same on ANY reachable array (`WF0` holds after every history whatsoever, `C09.inv_structure`): malformed
insertions, and prunes of such arrays, included -/
theorem updateJustified_returns_all (fc : FC) (hh : fc.held = false) (h : WF0 fc.pa) (t : Root) (j f : Checkpoint)
    (b : Option (List Nat)) :
    fc.updateJustified t j f b ≠ .blocked ∧ fc.updateJustified t j f b ≠ .panic :=
  updateJustified_returns0 fc hh h t j f b

/-- non-vacuity: a fresh instance satisfies the hypotheses -/
example : ∃ fc : FC, fc.held = false ∧ WF0 fc.pa :=
  ⟨{ pa := PA.new 0 (rt 1) 0 0 0 .absent, votes := [], changed := true, spe := 4, balances := [], pin := none,
     justified := ⟨0, rt 1⟩, finalized := ⟨0, rt 1⟩, held := false }, rfl, (wf_new ..).toWF0⟩

/-- The code before commit 38d1471: after a prune that the sink interrupted, `UpdateJustified` could loop forever in `inSubtree`
(`pr.nodes[i]` is indexed without the offset, the parent walk revisits an index). Witness (replayed on Go:
`blocked`): init 2 ff 0 ff 0 ff 0 ff fail3 …; eight blocks; justify 7f 1 01 1 01 …; justify de 2 aa…01 1 01 fail. -/
def witBlocked : List Op := [
  .init 2 (rt 0xff) 0 (rt 0xff) ⟨0, rt 0xff⟩ ⟨0, rt 0xff⟩ (.failAt 3) [32, 32, 32, 1, 33, 1],
  .block (rt 0xff) (rt 0xfe) 1 0 0, .block (rt 0xfe) (rt 1) 2 0 0, .block (rt 0xff) (aa 2) 3 0 0,
  .block (aa 2) (aa 1) 4 0 0, .block (rt 0xff) (rt 0x80) 1 0 0, .block (aa 2) (rt 2) 4 1 0,
  .block (rt 1) (rt 0x7f) 3 1 1,
  .justify (rt 0x7f) ⟨1, rt 1⟩ ⟨1, rt 1⟩ (some [32, 32, 32, 32, 1, 1]),
  .justify (rt 0xde) ⟨2, aa 1⟩ ⟨1, rt 1⟩ none]

/-- `witBlocked` is inside the domain: with the rewritten `OnPrune` no call of it blocks or panics -/
example : ∀ x ∈ (run .none witBlocked).2, x.isFatal = false :=
  run_total witBlocked .none trivial (admissibleB_sound witBlocked .none (by decide +kernel))

theorem Old.updateJustified_returns_false : ¬ ∀ ops, ∀ a ∈ (Zrnt.ForkChoice.Old.run .none ops).2, a ≠ Ans.blocked := by
  intro h
  exact h witBlocked Ans.blocked (by decide +kernel) rfl

/-! ## older / equal / outside -/

/-- Older or equal checkpoints change nothing: the call returns nil and the state is untouched. -/
theorem older_equal_noop (fc : FC) (h : fc.held = false) (t : Root) (j f : Checkpoint) (b : Option (List Nat))
    (hj : j.epoch ≤ fc.justified.epoch) (hf : f.epoch ≤ fc.finalized.epoch) :
    fc.updateJustified t j f b = .ok fc () :=
  Zrnt.ForkChoice.older_equal_noop fc h t j f b hj hf

/-- A new finalized checkpoint that `InSubtree` reports unknown, outside the finalized subtree, or of a lower
epoch is refused: error, and nothing but the array's link cache changes (checkpoints, balances, votes, pin
stay). Together with C11's `inSubtree_eq_anc` "outside" is fork-choice ancestry of the inserted tree. -/
theorem outside_subtree_refused_finalized (fc : FC) (f j : Checkpoint) (b : Option (List Nat)) (pa : PA) (u i : Bool)
    (hje : ¬ j.epoch < f.epoch) (hne : fc.finalized ≠ f)
    (hsub : fc.pa.inSubtree fc.finalized.root f.root = .ok pa (u, i))
    (hbad : u = true ∨ i = false ∨ fc.finalized.epoch > f.epoch) :
    fc.updateJustifiedInner f j b = .err { fc with pa := pa } :=
  inner_refuses_finalized fc f j b pa u i hje hne hsub hbad

/-- The same for a new justified checkpoint. -/
theorem outside_subtree_refused_justified (fc : FC) (f j : Checkpoint) (b : Option (List Nat)) (pa : PA) (u i : Bool)
    (hje : ¬ j.epoch < f.epoch) (heq : fc.finalized = f) (hne : fc.justified ≠ j)
    (hsub : fc.pa.inSubtree fc.finalized.root j.root = .ok pa (u, i))
    (hbad : u = true ∨ i = false ∨ fc.finalized.epoch > j.epoch) :
    fc.updateJustifiedInner f j b = .err { fc with pa := pa } :=
  inner_refuses_justified fc f j b pa u i hje heq hne hsub hbad

/-! ## pruning -/

/-- **prune_exact.** `OnPrune(root, slot)` on a state that satisfies the invariants and is related to the
specification state `a` (votes applied, sink log cleared — as `UpdateJustified` calls it) returns; the invariants
hold again; the result is related to the specification's prune; and when the call succeeds on a known node the
nodes of the array are, in order, exactly the nodes of the finalized subtree (`Abs.inFinalized`: the finalized
node and its transition descendants, except through a block that fills the checkpoint slot of an empty-slot
checkpoint). `indices`, `blockSlots`, parent / best-child / best-descendant indices and weights of the result are
covered by `FI` (`WF`, `Chain`, `WeightsOK`) and `Ref`. -/
theorem prune_exact (fc : FC) (a : Abs) (I : FI fc) (r : Ref fc a) (hset : ∀ v ∈ fc.votes, v.cur = v.next)
    (hlog : fc.pa.sinkLog = []) (root : Root) (slot : Nat) :
    match fc.pa.onPrune root slot with
    | .ok s _ => FI { fc with pa := s } ∧ Ref { fc with pa := s } (a.prune ⟨slot, root⟩).1 ∧
        (a.has ⟨slot, root⟩ = true → (absNodes s.nodes).map (·.ref) =
          (a.nodes.filter (fun n => a.inFinalized ⟨slot, root⟩ a.fuel n.ref)).map (·.ref))
    | .err s => FI { fc with pa := s } ∧ Ref { fc with pa := s } a
    | _ => False := by
  have h := pruneOK fc a I r hset hlog root slot
  revert h
  cases fc.pa.onPrune root slot with
  | ok s u =>
    intro h
    refine ⟨h.1, h.2.1, fun hhas => ?_⟩
    rw [← h.2.1.nodes]
    exact Abs.prune_refs a ⟨slot, root⟩ hhas h.2.2.1
  | err s =>
    intro h
    refine ⟨h.1, ?_⟩
    have e := (Abs.prune_failed a ⟨slot, root⟩ h.2.2.1).1
    rw [← e]; exact h.2.1
  | panic => exact fun h => h
  | spin => exact fun h => h

/-- **sink_once_canonical.** With a sink, a successful `OnPrune` on a known node made exactly one sink call per
dropped node, in insertion order, flagged canonical iff the node is a transition ancestor of the new finalized
node (the nodes dropped from the chain that was finalized; everything else is an orphaned branch). -/
theorem sink_once_canonical (fc : FC) (a : Abs) (I : FI fc) (r : Ref fc a) (hset : ∀ v ∈ fc.votes, v.cur = v.next)
    (hlog : fc.pa.sinkLog = []) (root : Root) (slot : Nat) (hhas : a.has ⟨slot, root⟩ = true)
    (hs : fc.pa.sink ≠ .absent) (s : PA) (e : fc.pa.onPrune root slot = .ok s ()) :
    (sinkReport s.sinkLog).2 = none ∧
    (sinkReport s.sinkLog).1 = (a.nodes.filter (fun n => !a.inFinalized ⟨slot, root⟩ a.fuel n.ref)).map
      (fun n => (n.ref, a.tAncestorOrSelf n.ref a.fuel ⟨slot, root⟩)) := by
  have h := pruneOK fc a I r hset hlog root slot
  rw [e] at h
  have h4 := h.2.2.2
  rw [Abs.prune_ok_failed_none a _ h.2.2.1,
    Abs.prune_sent a _ hhas h.2.2.1 (by rw [r.sink]; exact hs)] at h4
  rw [h4]
  exact ⟨rfl, rfl⟩

/-- **sink_failure_safe.** When the sink fails at its `k`-th call `OnPrune` returns the error and has changed
nothing but the sink log: no node is dropped, no index moved (the call can simply be repeated; the first `k` nodes
are then reported again). The log shows the `k` delivered reports and the failing one. -/
theorem sink_failure_safe (fc : FC) (a : Abs) (I : FI fc) (r : Ref fc a) (hset : ∀ v ∈ fc.votes, v.cur = v.next)
    (hlog : fc.pa.sinkLog = []) (root : Root) (slot : Nat) (s : PA) (e : fc.pa.onPrune root slot = .err s) :
    s = { fc.pa with sinkLog := s.sinkLog } ∧
    ∃ k, fc.pa.sink = .failAt k ∧
      (sinkReport s.sinkLog).1 = (a.reportsOf ⟨slot, root⟩).take k ∧
      (sinkReport s.sinkLog).2 = (a.reportsOf ⟨slot, root⟩)[k]? ∧ ((a.reportsOf ⟨slot, root⟩)[k]?).isSome = true := by
  constructor
  · rcases onPrune_cases fc.pa I.wf root slot with ⟨_, e'⟩ | ⟨i, _, l, e' | ⟨_, e'⟩ | ⟨_, e'⟩⟩
    · rw [e] at e'; cases e'
    · rw [e] at e'; cases e'; rfl
    · rw [e] at e'; cases e'
    · rw [e] at e'; cases e'
  · have h := pruneOK fc a I r hset hlog root slot
    rw [e] at h
    obtain ⟨_, k, hk, h1, h2, h3⟩ := Abs.prune_failed a ⟨slot, root⟩ h.2.2.1
    refine ⟨k, by rw [← r.sink]; exact hk, ?_, ?_, h3⟩
    · rw [h.2.2.2]; exact h1
    · rw [h.2.2.2]; exact h2

/-- **head_in_finalized_subtree.** On any instance related to the specification state left by a successful prune
at a known node `anchor`, `Head()` returns an error or a node of the finalized subtree of `anchor` (read in the
tree before the prune). -/
theorem head_in_finalized_subtree (fc : FC) (a0 : Abs) (anchor : NodeRef) (hh : fc.held = false) (I : FI fc)
    (hl : LI fc.pa) (hhas : a0.has anchor = true) (hok : (a0.prune anchor).2.2.2 = true)
    (r : Ref fc (a0.prune anchor).1) :
    match fc.head with
    | .ok _ ref => a0.inFinalized anchor a0.fuel ref = true
    | .err _ => True
    | _ => False := by
  have h := wrapperHead_sim fc _ hh I hl r
  revert h
  cases fc.head with
  | ok s ref => exact fun h => Abs.head_in_finalized a0 anchor _ ref hhas hok h.2
  | err s => exact fun _ => trivial
  | panic => exact fun h => h
  | blocked => exact fun h => h

/-- finalization with a recording sink: init 4 01 0 00 0 01 0 01 rec 32,32,32; blocks 02@1, 0201@4, fe@5;
justify fe 1 0201 1 0201 32,32,33; nodes -/
def witPrune : List Op := [
  .init 4 (rt 1) 0 0 ⟨0, rt 1⟩ ⟨0, rt 1⟩ .recording [32, 32, 32],
  .block (rt 1) (rt 2) 1 0 0, .block (rt 2) (0x0201 * 256 ^ 30) 4 0 0, .block (0x0201 * 256 ^ 30) (rt 0xfe) 5 1 1,
  .justify (rt 0xfe) ⟨1, 0x0201 * 256 ^ 30⟩ ⟨1, 0x0201 * 256 ^ 30⟩ (some [32, 32, 33]),
  .nodes]

/-- the rewritten code on `witPrune`: the six nodes before the finalized one are reported once each, all canonical,
and the three nodes of the finalized subtree stay — the specification's answers, line by line -/
example : (run .none witPrune).2 = (Spec.run none witPrune).2 := by decide +kernel

/-- The old `OnPrune` reported the FIRST node once per prunable node (`j` never advanced) instead of each dropped
node once, and the live node set afterwards was not the finalized subtree: the model of the old code answers
differently from the exact-prune specification on `witPrune` (replayed on Go before the fix: six times `01@0`). -/
theorem Old.prune_exact_false : (Zrnt.ForkChoice.Old.run .none witPrune).2 ≠ (Spec.run none witPrune).2 := by decide +kernel

/-- the same history with no sink: the old code pruned nothing at all -/
def witPruneNil : List Op := [
  .init 4 (rt 1) 0 0 ⟨0, rt 1⟩ ⟨0, rt 1⟩ .absent [32, 32, 32],
  .block (rt 1) (rt 2) 1 0 0, .block (rt 2) (0x0201 * 256 ^ 30) 4 0 0, .block (0x0201 * 256 ^ 30) (rt 0xfe) 5 1 1,
  .justify (rt 0xfe) ⟨1, 0x0201 * 256 ^ 30⟩ ⟨1, 0x0201 * 256 ^ 30⟩ (some [32, 32, 33]),
  .nodes]

theorem Old.prune_without_sink_false :
    (Zrnt.ForkChoice.Old.run .none witPruneNil).2.getLast? ≠ (Spec.run none witPruneNil).2.getLast? := by
  decide +kernel

example : (run .none witPruneNil).2 = (Spec.run none witPruneNil).2 := by decide +kernel

/-- old code: after a partial prune (sink failing at its second call) the next `UpdateJustified` panicked
(`deltas[node.ForkchoiceParent - pr.indexOffset]` / stale absolute indices) -/
def witPanic : List Op := [
  .init 2 (rt 1) 0 0 ⟨0, rt 1⟩ ⟨0, rt 1⟩ (.failAt 1) [32],
  .block (rt 1) (rt 2) 2 0 0, .block (rt 2) (rt 3) 4 1 1, .block (rt 3) (rt 4) 6 1 1, .block (rt 4) (rt 5) 8 1 1,
  .justify (rt 5) ⟨1, rt 2⟩ ⟨1, rt 2⟩ (some [32]),
  .justify (rt 5) ⟨2, rt 3⟩ ⟨2, rt 3⟩ (some [32])]

theorem Old.post_prune_ops_total_false : ¬ ∀ ops, ∀ a ∈ (Zrnt.ForkChoice.Old.run .none ops).2, a ≠ Ans.panic := by
  intro h
  exact h witPanic Ans.panic (by decide +kernel) rfl

/-- **post_prune_ops_total.** No call of an admissible history — any number of finalizations and prunes, failing
sinks included — is answered `panic`, `blocked` (endless loop or mutex) or `dead`. -/
theorem post_prune_ops_total (ops : List Op) (ha : Admissible .none ops) : ∀ x ∈ (run .none ops).2, x.isFatal = false :=
  run_total ops .none trivial ha

/-- `witPanic` (failing sink, two finalizing updates) is inside the domain -/
example : Admissible .none witPanic := admissibleB_sound witPanic .none (by decide +kernel)

/-- **no_panic**: no operation of ANY history — malformed insertions, any checkpoint updates, prunes of malformed
arrays, failing sinks — panics, blocks or loops; the weak structure invariant `WF0` holds afterwards. -/
theorem no_panic (ops : List Op) : MInv0 (run .none ops).1 ∧ ∀ x ∈ (run .none ops).2, x.isFatal = false :=
  ⟨inv_structure_all ops .none trivial, run_total_all_none ops⟩

/-- non-vacuity: a history with an empty-slot insertion under an unknown root, one below the first slot of its
root, and two finalizing updates (`W0.witMalformed`); after its first prune `WF` is false (`witMalformed_breaks_WF`) -/
example : MInv0 (run .none W0.witMalformed).1 := (no_panic W0.witMalformed).1

/-- **Checkpoint updates refine the specification (all admissible histories, finalizing updates included).**
Every `UpdateJustified` answer of the model — accepted, or refused because the checkpoint is older/equal, unknown,
outside the finalized or pinned subtree, below the finalized epoch, the balance callback failed, or the sink failed
during the prune — together with the list of sink calls it made, and every `Justified()`, `Finalized()`, `Pin()`,
`SetPin`, block/vote acceptance and head answer equals the specification's, position by position (`Refined` lists
the operations); the states stay related (`MRef`: in particular the node set is the specification's, i.e. after a
finalization the finalized subtree). A refused update changes nothing observable, and the head after an accepted
update is the GHOST head for the new epochs and balances on the pruned tree. -/
theorem updates_refine (ops : List Op) (ha : Admissible .none ops) :
    AnswersAgree ops (run .none ops).2 (Spec.run none ops).2 ∧ MRef (run .none ops).1 (Spec.run none ops).1 :=
  refines_run ops .none none trivial trivial trivial ha

/-- non-vacuity: an admissible history with an accepted justified-only update, a refused one (unknown root) and an
older one -/
def histJ : List Op := [
  .init 4 (rt 1) 0 0 ⟨0, rt 1⟩ ⟨0, rt 1⟩ .recording [32, 32],
  .block (rt 1) (rt 2) 1 0 0, .block (rt 2) (rt 3) 4 1 0, .att 0 (rt 3) 4,
  .justify (rt 1) ⟨1, rt 3⟩ ⟨0, rt 1⟩ (some [32, 33]), .just, .head,
  .justify (rt 1) ⟨2, rt 9⟩ ⟨0, rt 1⟩ (some [1, 1]), .just,
  .justify (rt 1) ⟨1, rt 2⟩ ⟨0, rt 1⟩ (some [1, 1]), .just, .fin, .pinq]

example : Admissible .none histJ := admissibleB_sound histJ .none (by decide +kernel)

example : (run .none histJ).2 = (Spec.run none histJ).2 := by decide +kernel

/-- non-vacuity with pruning: the witness histories above are admissible, so `updates_refine` applies to them -/
example : AnswersAgree witPrune (run .none witPrune).2 (Spec.run none witPrune).2 :=
  (updates_refine witPrune (admissibleB_sound witPrune .none (by decide +kernel))).1

example : AnswersAgree witPanic (run .none witPanic).2 (Spec.run none witPanic).2 :=
  (updates_refine witPanic (admissibleB_sound witPanic .none (by decide +kernel))).1

end Zrnt.Proofs.C10

