import Proofs.Lemmas.ForkChoiceSim
import Proofs.Lemmas.ForkChoiceLock
import Zrnt.ForkChoice.Spec
import Zrnt.ForkChoice.Old
/-!
# C10 — justification/finalization updates terminate, prune exactly, and keep the head

Statements about the code-shaped model `Zrnt.ForkChoice` (tie H: modes `fc09`/`fc10`/`fc11` run the same
operation lines on the real Go code, on this model and on the specification `Zrnt.ForkChoice.Spec`).

`ProtoArray.OnPrune` and the users of node indices after a prune are defective on the current tree (known
finding, `known_findings.jsonl`): the full-strength theorems about pruning are FALSE of the code. Each of them is
kept as a comment, its negation is proved on a concrete witness history by `decide` (the same histories are in
`corpus/fc10.ops` / `corpus/fc11.ops` and replay on the Go code), and the part that holds is proved as `…_partial`.
-/
namespace Zrnt.Proofs.C10
open Zrnt.ForkChoice

/-- a root given by its first byte -/
def rt (n : Nat) : Root := n * 256 ^ 31
/-- the 32-byte root `aa 00 … 00 k` -/
def aa (k : Nat) : Root := 0xaa * 256 ^ 31 + k

/-! ## UpdateJustified returns -/

/- FULL STATEMENT (false of the current code, see `updateJustified_returns_false`):
   `theorem updateJustified_returns : ∀ ops, ∀ a ∈ (run .none ops).2, a ≠ .blocked`
   — no call of any history is answered `blocked` (= the Go call does not return within the watchdog). -/

/-- `UpdateJustified` returns (nil or error): it neither blocks on the mutex (the exported method acquires `mu`
once and its helpers use the graph directly) nor loops nor panics — on every instance whose node array is well
formed, i.e. as long as nothing has been pruned. -/
theorem updateJustified_returns_partial (fc : FC) (hh : fc.held = false) (h : WF fc.pa) (t : Root) (j f : Checkpoint)
    (b : Option (List Nat)) (hq : f = fc.finalized) :
    fc.updateJustified t j f b ≠ .blocked ∧ fc.updateJustified t j f b ≠ .panic :=
  updateJustified_returns_wf fc hh h t j f b hq

/-- non-vacuity: a fresh instance satisfies the hypotheses -/
example : ∃ fc : FC, fc.held = false ∧ WF fc.pa :=
  ⟨{ pa := PA.new 0 (rt 1) 0 0 0 .absent, votes := [], changed := true, spe := 4, balances := [], pin := none,
     justified := ⟨0, rt 1⟩, finalized := ⟨0, rt 1⟩, held := false }, rfl, wf_new ..⟩

/-- After a prune that the sink interrupted, `UpdateJustified` can loop forever in `inSubtree`
(`pr.nodes[i]` is indexed without the offset, the parent walk revisits an index). Witness (replayed on Go:
`blocked`): init 2 ff 0 ff 0 ff 0 ff fail3 …; eight blocks; justify 7f 1 01 1 01 …; justify de 2 aa…01 1 01 fail. -/
def witBlocked : List Op := [
  .init 2 (rt 0xff) 0 (rt 0xff) ⟨0, rt 0xff⟩ ⟨0, rt 0xff⟩ (.failAt 3) [32, 32, 32, 1, 33, 1],
  .block (rt 0xff) (rt 0xfe) 1 0 0, .block (rt 0xfe) (rt 1) 2 0 0, .block (rt 0xff) (aa 2) 3 0 0,
  .block (aa 2) (aa 1) 4 0 0, .block (rt 0xff) (rt 0x80) 1 0 0, .block (aa 2) (rt 2) 4 1 0,
  .block (rt 1) (rt 0x7f) 3 1 1,
  .justify (rt 0x7f) ⟨1, rt 1⟩ ⟨1, rt 1⟩ (some [32, 32, 32, 32, 1, 1]),
  .justify (rt 0xde) ⟨2, aa 1⟩ ⟨1, rt 1⟩ none]

theorem Old.updateJustified_returns_false : ¬ ∀ ops, ∀ a ∈ (Zrnt.ForkChoice.Old.run .none ops).2, a ≠ Ans.blocked := by
  intro h
  exact h witBlocked Ans.blocked (by decide +kernel) rfl

/-! ## older / equal / outside -/

/-- Older or equal checkpoints change nothing: the call returns nil and the state is untouched. -/
theorem older_equal_noop (fc : FC) (h : fc.held = false) (t : Root) (j f : Checkpoint) (b : Option (List Nat))
    (hj : j.epoch ≤ fc.justified.epoch) (hf : f.epoch ≤ fc.finalized.epoch) :
    fc.updateJustified t j f b = .ok fc () :=
  Zrnt.ForkChoice.older_equal_noop fc h t j f b hj hf

/-- A new finalized checkpoint that `InSubtree` reports unknown, outside the finalized subtree, or of a lower
epoch is refused: error, and nothing but the array's link cache changes (checkpoints, balances, votes, pin
stay). Together with C11's `inSubtree_eq_anc` "outside" is fork-choice ancestry of the inserted tree. -/
theorem outside_subtree_refused_finalized (fc : FC) (f j : Checkpoint) (b : Option (List Nat)) (pa : PA) (u i : Bool)
    (hje : ¬ j.epoch < f.epoch) (hne : fc.finalized ≠ f)
    (hsub : fc.pa.inSubtree fc.finalized.root f.root = .ok pa (u, i))
    (hbad : u = true ∨ i = false ∨ fc.finalized.epoch > f.epoch) :
    fc.updateJustifiedInner f j b = .err { fc with pa := pa } :=
  inner_refuses_finalized fc f j b pa u i hje hne hsub hbad

/-- The same for a new justified checkpoint. -/
theorem outside_subtree_refused_justified (fc : FC) (f j : Checkpoint) (b : Option (List Nat)) (pa : PA) (u i : Bool)
    (hje : ¬ j.epoch < f.epoch) (heq : fc.finalized = f) (hne : fc.justified ≠ j)
    (hsub : fc.pa.inSubtree fc.finalized.root j.root = .ok pa (u, i))
    (hbad : u = true ∨ i = false ∨ fc.finalized.epoch > j.epoch) :
    fc.updateJustifiedInner f j b = .err { fc with pa := pa } :=
  inner_refuses_justified fc f j b pa u i hje heq hne hsub hbad

/-! ## pruning -/

/- FULL STATEMENTS (false of the current code):
   `prune_exact` / `sink_once_canonical` / `retained_queries_unchanged`:
     `∀ ops, (run .none ops).2 = (Spec.run none ops).2` up to `any` — after a successful update with a new
     finalized checkpoint the retained node set is exactly the transition-descendants-or-self of the finalized
     node, each dropped node is reported once with `canonical = ancestor of the head`, and every later answer is
     the specification's.
   `post_prune_ops_total`: no later operation panics. -/

/-- finalization with a recording sink: init 4 01 0 00 0 01 0 01 rec 32,32,32; blocks 02@1, 0201@4, fe@5;
justify fe 1 0201 1 0201 32,32,33; nodes -/
def witPrune : List Op := [
  .init 4 (rt 1) 0 0 ⟨0, rt 1⟩ ⟨0, rt 1⟩ .recording [32, 32, 32],
  .block (rt 1) (rt 2) 1 0 0, .block (rt 2) (0x0201 * 256 ^ 30) 4 0 0, .block (0x0201 * 256 ^ 30) (rt 0xfe) 5 1 1,
  .justify (rt 0xfe) ⟨1, 0x0201 * 256 ^ 30⟩ ⟨1, 0x0201 * 256 ^ 30⟩ (some [32, 32, 33]),
  .nodes]

/-- `OnPrune` reports the FIRST node once per prunable node (`j` never advances) instead of each dropped node
once, and the live node set afterwards is not the finalized subtree: the model of the code answers differently
from the exact-prune specification on `witPrune` (replayed on Go: six times `01@0`). -/
theorem Old.prune_exact_false : (Zrnt.ForkChoice.Old.run .none witPrune).2 ≠ (Spec.run none witPrune).2 := by decide +kernel

/-- the same history with no sink: nothing at all is pruned -/
def witPruneNil : List Op := [
  .init 4 (rt 1) 0 0 ⟨0, rt 1⟩ ⟨0, rt 1⟩ .absent [32, 32, 32],
  .block (rt 1) (rt 2) 1 0 0, .block (rt 2) (0x0201 * 256 ^ 30) 4 0 0, .block (0x0201 * 256 ^ 30) (rt 0xfe) 5 1 1,
  .justify (rt 0xfe) ⟨1, 0x0201 * 256 ^ 30⟩ ⟨1, 0x0201 * 256 ^ 30⟩ (some [32, 32, 33]),
  .nodes]

theorem Old.prune_without_sink_false :
    (Zrnt.ForkChoice.Old.run .none witPruneNil).2.getLast? ≠ (Spec.run none witPruneNil).2.getLast? := by
  decide +kernel

/-- after a partial prune (sink failing at its second call) the next `UpdateJustified` panics
(`deltas[node.ForkchoiceParent - pr.indexOffset]` / stale absolute indices) -/
def witPanic : List Op := [
  .init 2 (rt 1) 0 0 ⟨0, rt 1⟩ ⟨0, rt 1⟩ (.failAt 1) [32],
  .block (rt 1) (rt 2) 2 0 0, .block (rt 2) (rt 3) 4 1 1, .block (rt 3) (rt 4) 6 1 1, .block (rt 4) (rt 5) 8 1 1,
  .justify (rt 5) ⟨1, rt 2⟩ ⟨1, rt 2⟩ (some [32]),
  .justify (rt 5) ⟨2, rt 3⟩ ⟨2, rt 3⟩ (some [32])]

theorem Old.post_prune_ops_total_false : ¬ ∀ ops, ∀ a ∈ (Zrnt.ForkChoice.Old.run .none ops).2, a ≠ Ans.panic := by
  intro h
  exact h witPanic Ans.panic (by decide +kernel) rfl

/-- no operation of ANY history that leaves the finalized checkpoint alone (malformed insertions included) panics,
blocks or loops, and the structure invariant holds -/
theorem no_panic_quiet (ops : List Op) (hq : Quiet .none ops) : MInv (run .none ops).1 :=
  inv_structure_quiet ops .none trivial hq

/-- **Checkpoint updates refine the specification (admissible histories: the finalized checkpoint is never moved).**
Every `UpdateJustified` answer of the model — accepted, or refused because the checkpoint is older/equal, unknown,
outside the finalized or pinned subtree, below the finalized epoch, or the balance callback failed — and every
`Justified()`, `Finalized()`, `Pin()`, `SetPin`, block/vote acceptance and head answer equals the specification's,
position by position (`Refined` lists the operations); the states stay related. In particular a refused update
changes nothing observable, and the head after an accepted update is the GHOST head for the new epochs and
balances. -/
theorem updates_refine_partial (ops : List Op) (ha : Admissible .none ops) :
    AnswersAgree ops (run .none ops).2 (Spec.run none ops).2 ∧ MRef (run .none ops).1 (Spec.run none ops).1 :=
  refines_run ops .none none trivial trivial ha

/-- non-vacuity: an admissible history with an accepted justified-only update, a refused one (unknown root) and an
older one -/
def histJ : List Op := [
  .init 4 (rt 1) 0 0 ⟨0, rt 1⟩ ⟨0, rt 1⟩ .recording [32, 32],
  .block (rt 1) (rt 2) 1 0 0, .block (rt 2) (rt 3) 4 1 0, .att 0 (rt 3) 4,
  .justify (rt 1) ⟨1, rt 3⟩ ⟨0, rt 1⟩ (some [32, 33]), .just, .head,
  .justify (rt 1) ⟨2, rt 9⟩ ⟨0, rt 1⟩ (some [1, 1]), .just,
  .justify (rt 1) ⟨1, rt 2⟩ ⟨0, rt 1⟩ (some [1, 1]), .just, .fin, .pinq]

example : Admissible .none histJ := admissibleB_sound histJ .none (by decide +kernel)

example : (run .none histJ).2 = (Spec.run none histJ).2 := by decide +kernel

end Zrnt.Proofs.C10
