import Proofs.Lemmas.ForkChoiceLock
/-!
# C10 — justification/finalization updates terminate, prune exactly, and keep the head

Statements about the code-shaped model `Zrnt.ForkChoice` (tie H: modes `fc09`/`fc10`/`fc11` run the same
operation lines on the real Go code and on this model).
-/
namespace Zrnt.Proofs.C10
open Zrnt.ForkChoice

/-- `UpdateJustified` never blocks: with the mutex free at the call, no outcome is `blocked`
(the exported method acquires `mu` once, the helpers it calls never re-acquire it). -/
theorem updateJustified_returns (fc : FC) (h : fc.held = false) (t : Root) (j f : Checkpoint)
    (b : Option (List Nat)) : (fc.updateJustified t j f b).isBlocked = false :=
  Zrnt.ForkChoice.updateJustified_returns fc h t j f b

/-- Older or equal checkpoints change nothing: the call returns nil and the state is untouched. -/
theorem older_equal_noop (fc : FC) (h : fc.held = false) (t : Root) (j f : Checkpoint) (b : Option (List Nat))
    (hj : j.epoch ≤ fc.justified.epoch) (hf : f.epoch ≤ fc.finalized.epoch) :
    fc.updateJustified t j f b = .ok fc () :=
  Zrnt.ForkChoice.older_equal_noop fc h t j f b hj hf

end Zrnt.Proofs.C10
