import Zrnt.Driver.Registry
def main (args : List String) : IO UInt32 := Zrnt.Driver.run args
