#!/bin/sh
# tools/sweep.sh "<seeds>" "<ids>" [tier]   — run checks on the unchanged tree for several seeds; one line per run.
# Any rc!=0 or VIOLATION here is either a genuine defect of /repo or a false alarm of ours: both must be resolved.
SEEDS=${1:-"1 2 3"}; IDS=${2:-"C01 C02 C03 C04 C05 C06 C07 C08 C09 C10 C11 C12 C13 C14 C15 C16 C17 C18 C19 C20"}; TIER=${3:-quick}
cd "$(dirname "$0")/.."
for s in $SEEDS; do for id in $IDS; do
  t0=$(date +%s); out=$(VERIF_SEED=$s ./check $id --tier $TIER 2>/dev/null); rc=$?; t1=$(date +%s)
  echo "seed=$s $id rc=$rc t=$((t1-t0))s viol=$(echo "$out" | grep -c '^VIOLATION') known=$(echo "$out" | grep -c '^KNOWN-FINDING')"
  echo "$out" | grep '^VIOLATION' | head -3
done; done
