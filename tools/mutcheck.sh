#!/bin/sh
# tools/mutcheck.sh <patch.diff> <ID> [<ID> ...]
# Runs the given checks against a scratch worktree of /repo with the patch applied, from a scratch copy
# of /verif (so neither /repo nor /verif's generated files are touched). Cleans up afterwards.
# Prints one line per check: "<ID> exit=<code>" followed by the VIOLATION / KNOWN-FINDING lines.
set -u
PATCH=$(readlink -f "$1"); shift
N=$$
WT=/tmp/mc-wt-$N
VC=/tmp/mc-verif-$N
cleanup() { git -C /repo worktree remove --force "$WT" >/dev/null 2>&1; rm -rf "$VC" "$WT"; }
trap cleanup EXIT INT TERM
git -C /repo worktree add --detach "$WT" HEAD >/dev/null 2>&1 || { echo "worktree failed"; exit 2; }
git -C "$WT" apply "$PATCH" || { echo "patch does not apply"; exit 2; }
( cd "$WT" && go build ./... ) || { echo "mutant does not compile"; exit 2; }
mkdir -p "$VC"
rsync -a --exclude .git --exclude work --exclude replays --exclude evidence --exclude gocache /verif/ "$VC"/
for ID in "$@"; do
  OUT=$(cd "$VC" && VERIF_REPO="$WT" ./check "$ID" ${TIER:+--tier $TIER} 2>"$VC/err.$ID.log")
  RC=$?
  echo "$ID exit=$RC"
  echo "$OUT" | grep -E "^(VIOLATION|KNOWN-FINDING)" | sed "s#$VC#/verif#g"
  if [ -n "${VERBOSE:-}" ]; then tail -30 "$VC/err.$ID.log"; for f in "$VC"/replays/*.json; do [ -f "$f" ] && head -c 1500 "$f"; done; fi
done
