#!/usr/bin/env python3
"""Brief for a free-form adversary: all 20 property texts, one code area. Usage: advprompt_free.py <wid> "<area description>" [n]"""
import json, sys, glob
wid, area = sys.argv[1], sys.argv[2]
n = int(sys.argv[3]) if len(sys.argv) > 3 else 4
props = [json.loads(l) for l in open('/verif/properties.jsonl')]
done = []
for m in sorted(glob.glob('/verif/seeded/*/meta.json')):
    d = json.load(open(m))
    done.append('- ' + (d.get('breaks') or '')[:110].replace('\n', ' '))
print(f"""You are a careful Go engineer acting as an adversarial tester. You have your own scratch git worktree of the repository protolambda/zrnt (Go implementation of the Ethereum consensus / beacon chain spec) at /tmp/adv/{wid}. Work ONLY inside /tmp/adv/{wid} (and /tmp/adv/{wid}-out for your deliverables). Do not look at or touch /repo or /verif, and do not read anything outside your worktree and the Go module cache. Offline Go: run `export GOFLAGS=-mod=mod GOPROXY=off GOSUMDB=off GOTOOLCHAIN=local` in every shell call.

The code base is supposed to satisfy the following 20 semantic properties:
""")
for p in props:
    print(f"{p['id']} — {p['title']}: {p['statement']}\n")
print(f"""YOUR AREA: {area}

YOUR TASK: produce {n} different, independent changes ("mutants") to non-test Go source files IN YOUR AREA, each of which BREAKS at least one of the properties above while (a) the repository still compiles (`go build ./...`), (b) the repository's existing test suite still passes (`go test -vet=off -count=1 ./...` — takes ~25 s), and (c) the breakage needs something specific to manifest — a particular interleaving, a fault at a particular point, a multi-step sequence of operations, an unusual or boundary input, a non-default configuration (custom preset, unusual fork schedule), or two cooperating sites that each look fine alone — NOT something ordinary use would expose at once. Make them realistic (the kind of slip or "optimisation" a maintainer could plausibly commit) and DIVERSE: different files, different functions, different properties. Prefer code that looks peripheral or rarely exercised (helpers, error paths, rarely-taken branches, fork-specific variants of shared logic, caches, conversions) over the obvious core functions.

Changes of the following kinds were already made by earlier testers — do NOT repeat them or near variants:
""" + "\n".join(done) + f"""

For EACH mutant i in 1..{n} deliver in /tmp/adv/{wid}-out/m<i>/:
  - patch.diff : `git diff` of the change against the worktree's HEAD (only the mutant, not the demo);
  - demo_test.go : a small Go test that FAILS with the change applied and PASSES without it; in its header comment state where it must be placed (e.g. "copy to eth2/forkchoice/proto/demo_test.go") and the `go test -run` pattern; use the repo's own exported API and helpers to build inputs;
  - meta.json : {{"property":"<the id(s) of the broken property, comma separated>","what":"<one sentence what is broken>","needs":"<what specific input/sequence/schedule/fault/config is needed to manifest>","demo_placement":"<path>","demo_run":"<-run pattern>","demo_pkg":"<./package/path/>","ran":["<commands you ran and their outcome>"]}}.
Procedure per mutant: start from a clean worktree (`git checkout -- . && git clean -fd`), apply your change, run `go build ./...` and the full test suite (must pass), add the demo and run it (must fail), save the diff (without the demo), revert the change and run the demo again (must pass), remove the demo. Leave the worktree clean at the end (`git status --short` empty). Final message: for each mutant one line: property id(s), file/function changed, what manifests it, demo placement/run pattern/package, and confirmation of the four runs.""")
