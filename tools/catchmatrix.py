#!/usr/bin/env python3
"""Regenerate seeded/CATCH_MATRIX.md from seeded/*/meta.json (adversary mutants confirmed by the main session)
and the self-test RESULTS of each component."""
import glob, json, os
V = os.path.dirname(os.path.dirname(os.path.abspath(__file__)))
rows = []
for m in sorted(glob.glob(os.path.join(V, "seeded", "*", "meta.json"))):
    d = json.load(open(m)); name = os.path.basename(os.path.dirname(m))
    det = d.get("our_checks", {})
    caught = [p for p, r in det.items() if r.get("exit") == 1]
    missed = [p for p, r in det.items() if r.get("exit") != 1]
    nofi = [p for p, r in det.items() if any("no-failing-input-found" in l for l in r.get("violation_lines", [])) and not any("no-failing-input-found" not in l for l in r.get("violation_lines", []))]
    rows.append((name, d.get("property"), (d.get("breaks") or "")[:160].replace("|", "/"), (d.get("needs") or "")[:140].replace("|", "/"),
                 ", ".join(caught) or "-", ", ".join(missed) or "-", ", ".join(nofi) or "-"))
with open(os.path.join(V, "seeded", "CATCH_MATRIX.md"), "w") as f:
    f.write("# Seeded changes (independent adversary agents; each confirmed: compiles, suite passes, demo fails with / passes without)\n\n")
    f.write("| mutant | aimed at | what it breaks | needs | caught by (exit 1) | not caught by | only as no-failing-input-found |\n|---|---|---|---|---|---|---|\n")
    for r in rows:
        f.write("| " + " | ".join(r) + " |\n")
    f.write("\nSelf-test mutants written by the component builders are under seeded/selftest/<component>/ with RESULTS.txt where present.\n")
print(len(rows), "mutants")
