#!/bin/sh
# tools/confirm_mutant.sh <mutant dir with patch.diff + demo> <demo destination path relative to repo> <go test package> [run-regex]
# Confirms in a scratch worktree of /repo: patch applies, builds, the repo's suite passes with it, the demo FAILS with it
# and PASSES without it. Prints a JSON fragment with the outcome. Cleans up.
set -u
D=$(readlink -f "$1"); DEST=$2; PKG=$3; RUN=${4:-.}
export GOFLAGS=-mod=mod GOPROXY=off GOSUMDB=off GOTOOLCHAIN=local
WT=/tmp/cm-wt-$$
cleanup() { git -C /repo worktree remove --force "$WT" >/dev/null 2>&1; rm -rf "$WT"; }
trap cleanup EXIT INT TERM
git -C /repo worktree add --detach "$WT" HEAD >/dev/null 2>&1 || { echo '{"error":"worktree"}'; exit 2; }
cd "$WT"
DEMO=$(ls "$D"/demo_test.go "$D"/demo*.go 2>/dev/null | head -1)
git apply "$D/patch.diff" || { echo '{"error":"patch does not apply"}'; exit 2; }
go build ./... >/dev/null 2>&1; B=$?
go test -vet=off -count=1 ./... >/tmp/cm-suite-$$.log 2>&1; S=$?
mkdir -p "$(dirname "$DEST")"; cp "$DEMO" "$DEST"
go test ${DEMOFLAGS:-} -vet=off -count=1 -run "$RUN" "$PKG" >/tmp/cm-with-$$.log 2>&1; W=$?
git checkout -- . ; 
go test ${DEMOFLAGS:-} -vet=off -count=1 -run "$RUN" "$PKG" >/tmp/cm-without-$$.log 2>&1; WO=$?
rm -f "$DEST"
echo "{\"builds\": $([ $B = 0 ] && echo true || echo false), \"suite_passes\": $([ $S = 0 ] && echo true || echo false), \"demo_fails_with\": $([ $W != 0 ] && echo true || echo false), \"demo_passes_without\": $([ $WO = 0 ] && echo true || echo false)}"
rm -f /tmp/cm-suite-$$.log /tmp/cm-with-$$.log /tmp/cm-without-$$.log
