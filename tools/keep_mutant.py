#!/usr/bin/env python3
"""keep_mutant.py <srcdir> <name> <prop> <demo_dest> <pkg> [run-regex]
Confirms an adversary's mutant independently (tools/confirm_mutant.sh), runs our check(s) against it
(tools/mutcheck.sh) and stores it under /verif/seeded/<name>/ with a meta.json recording both."""
import json, os, re, shutil, subprocess, sys
src, name, prop, dest, pkg = sys.argv[1:6]
run = sys.argv[6] if len(sys.argv) > 6 else "."
claimed = None
if prop == "ALL":
    prop = ",".join("C%02d" % i for i in range(1, 21))
    try:
        claimed = json.load(open(os.path.join(src, "meta.json"))).get("property")
    except Exception:
        pass
V = "/verif"
conf = subprocess.run([f"{V}/tools/confirm_mutant.sh", src, dest, pkg, run], capture_output=True, text=True).stdout.strip().splitlines()[-1]
conf = json.loads(conf)
ok = all(conf.get(k) for k in ("builds", "suite_passes", "demo_fails_with", "demo_passes_without"))
mc = subprocess.run([f"{V}/tools/mutcheck.sh", os.path.join(src, "patch.diff")] + prop.split(","), capture_output=True, text=True).stdout
detected = {}
for p in prop.split(","):
    m = re.search(rf"^{p} exit=(\d+)", mc, re.M)
    detected[p] = dict(exit=int(m.group(1)) if m else None,
                       violation_lines=[l for l in mc.splitlines() if l.startswith("VIOLATION") and f"property={p}" in l][:3])
meta = {}
try:
    meta = json.load(open(os.path.join(src, "meta.json")))
except Exception as e:
    meta = {"note": f"adversary meta.json unreadable: {e}"}
out = os.path.join(V, "seeded", name)
if not ok:
    print("NOT CONFIRMED", conf); sys.exit(1)
os.makedirs(out, exist_ok=True)
shutil.copy(os.path.join(src, "patch.diff"), out)
for f in os.listdir(src):
    if f.startswith("demo"):
        if os.path.isdir(os.path.join(src, f)): shutil.copytree(os.path.join(src, f), os.path.join(out, f), dirs_exist_ok=True)
        else: shutil.copy(os.path.join(src, f), out)
json.dump(dict(property=(claimed or prop), checked_against=prop, breaks=meta.get("what"), needs=meta.get("needs"), adversary_ran=meta.get("ran"),
               demo=dict(place_at=dest, run=f"go test -vet=off -count=1 -run '{run}' {pkg}"),
               confirmed_by_main=conf, confirmed_cmd=f"tools/confirm_mutant.sh seeded/{name} {dest} {pkg} {run}",
               our_checks=detected, checked_cmd=f"tools/mutcheck.sh seeded/{name}/patch.diff {prop.replace(',', ' ')}"),
          open(os.path.join(out, "meta.json"), "w"), indent=1)
print(name, "claimed", claimed or prop, "caught_by", [p for p, d in detected.items() if d["exit"] == 1])
