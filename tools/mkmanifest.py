#!/usr/bin/env python3
"""Regenerate MANIFEST.json from vlib/props/*.py (claimed properties) and tools/not_applicable.json."""
import json, os, sys
ROOT = os.path.dirname(os.path.dirname(os.path.abspath(__file__)))
sys.path.insert(0, ROOT)
from vlib.props import PROPS
ids = [json.loads(l)["id"] for l in open(os.path.join(ROOT, "properties.jsonl"))]
na_path = os.path.join(ROOT, "tools", "not_applicable.json")
na_reasons = json.load(open(na_path)) if os.path.exists(na_path) else {}
hooks_path = os.path.join(ROOT, "tools", "hooks.json")
hooks = json.load(open(hooks_path)) if os.path.exists(hooks_path) else {"source_commits": []}
claimed = [i for i in ids if i in PROPS]
m = {
    "version": 1,
    "setup_cmd": "./setup.sh",
    "hooks": {"guard": "verif",
              "enable": "go build -tags verif (the harness in /verif/go is built with -tags verif against /repo through a replace directive)",
              "baseline_off_cmd": "cd /repo && go build ./... && go test -vet=off -count=1 ./...",
              "source_commits": hooks.get("source_commits", []), "add_only": True},
    "engines": [
        {"name": "lean", "path": "lean/", "serves_properties": claimed,
         "kind_free_text": "Lean 4 models (core only), property theorems (Proofs/Properties), compiled model driver zmodel"},
        {"name": "go-harness", "path": "go/", "serves_properties": claimed,
         "kind_free_text": "go2lean translator + fact extractors (regenerated tie R), in-process harness driving the real zrnt code (correspondence tie H)"}],
    "checks": [],
    "notes": "See DESIGN.md. ./check <id> regenerates the Lean tables from /repo, re-checks the property theorems and their axioms, runs the Go/Lean correspondence, and classifies any break (failing input, or no-failing-input-found).",
    "not_applicable": [{"property_id": i, "reason": na_reasons.get(i, "not yet built (design in DESIGN.md section 5); will be claimed once its model, theorems and tie exist")}
                       for i in ids if i not in PROPS],
}
for i in claimed:
    mf = PROPS[i].get("manifest", {})
    m["checks"].append({
        "property_id": i, "quick_cmd": f"./check {i} --tier quick", "thorough_cmd": f"./check {i} --tier thorough",
        "evidence_file": f"evidence/{i}.json", "replay_cmd_template": f"./check {i} --replay {{path}}",
        "engine": mf.get("engine", "lean"),
        "level_claimed": {"category": PROPS[i].get("level", "proof"), "text": mf.get("level_text", ""), "design_ref": mf.get("design_ref", f"DESIGN.md 5/{i}")},
        "level_note": mf.get("level_note", ""), "technique": mf.get("technique", "Lean 4 proof + Go/Lean correspondence")})
json.dump(m, open(os.path.join(ROOT, "MANIFEST.json"), "w"), indent=1)
print("claimed:", " ".join(claimed))
