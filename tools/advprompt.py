#!/usr/bin/env python3
"""Print the brief for an adversarial sub-agent: property text only + its own worktree. Usage: advprompt.py C09 c09a [n]"""
import json, sys
pid, wid = sys.argv[1], sys.argv[2]
n = int(sys.argv[3]) if len(sys.argv) > 3 else 3
wave = int(sys.argv[4]) if len(sys.argv) > 4 else 1
import glob, os
done = []
for m in sorted(glob.glob('/verif/seeded/*/meta.json')):
    d = json.load(open(m))
    if pid in (d.get('property') or '').split(','):
        done.append('- ' + (d.get('breaks') or '')[:170].replace('\n', ' '))
avoid = ""
if wave > 1 and done:
    avoid = ("\nEARLIER MUTANTS (already made by other testers against this property — do NOT repeat these or near variants; pick other functions, other mechanisms, other clauses of the property):\n" + "\n".join(done) +
             "\nFor this round prefer: two cooperating sites that each look fine alone; changes that only matter under a non-default configuration (custom preset / unusual fork schedule); changes that only matter after a specific multi-step history; resource/boundary cases (empty, exactly-at-limit, wrap-around); and clauses of the property statement that the earlier mutants did not touch.\n")
p = [json.loads(l) for l in open('/verif/properties.jsonl') if json.loads(l)['id'] == pid][0]
mech = "; ".join(f"{m.get('name')} ({m.get('where')})" for m in p['anchors'].get('mechanism', []))
print(f"""You are a careful Go engineer acting as an adversarial tester. You have your own scratch git worktree of the repository protolambda/zrnt (Go implementation of the Ethereum consensus / beacon chain spec) at /tmp/adv/{wid}. Work ONLY inside /tmp/adv/{wid} (and /tmp/adv/{wid}-out for your deliverables). Do not look at or touch /repo or /verif, and do not read anything outside your worktree and the Go module cache. Offline Go: run `export GOFLAGS=-mod=mod GOPROXY=off GOSUMDB=off GOTOOLCHAIN=local` in every shell call.

THE PROPERTY (a semantic property the code base is supposed to satisfy):
Title: {p['title']}.
Statement: {p['statement']}
Quantified over: {p['quantifier']['text']}
Code anchors: files {', '.join(p['anchors']['files'])}. Mechanisms: {mech}

{avoid}
YOUR TASK: produce {n} different, independent changes ("mutants") to the repository's non-test Go source, each of which BREAKS this property while (a) the repository still compiles (`go build ./...`), (b) the repository's existing test suite still passes (`go test -vet=off -count=1 ./...` — takes ~25 s), and (c) the breakage needs something specific to manifest — a particular interleaving, a fault at a particular point, a multi-step sequence of operations, an unusual or boundary input, a particular configuration, or two cooperating sites that each look fine alone — NOT something ordinary use would expose at once (do not make a function wrong for all inputs). Make them realistic: the kind of slip or "optimisation" a maintainer could plausibly commit (an off-by-one at a boundary, a wrong comparison direction, a stale cache, a skipped update on one path, a swapped argument, a check moved, a missing lock, a wrong constant for one fork). The mutants should touch different functions/mechanisms of the property.

For EACH mutant i in 1..{n} deliver in /tmp/adv/{wid}-out/m<i>/:
  - patch.diff : `git diff` of the change against the worktree's HEAD (only the mutant, not the demo);
  - demo_test.go (or demo/main.go) : a small Go test/program that FAILS with the change applied and PASSES without it (state where it must be placed, e.g. "copy to eth2/forkchoice/demo_test.go"); use the repo's own exported API and helpers to build inputs;
  - meta.json : {{"property":"{pid}","what":"<one sentence what is broken>","needs":"<what specific input/sequence/schedule/fault/config is needed to manifest>","ran":["<commands you ran and their outcome>"]}}.
Procedure per mutant: start from a clean worktree (`git checkout -- . && git clean -fd`), apply your change, run `go build ./...` and the full test suite (must pass), add the demo and run it (must fail), save the diff (without the demo), revert the change and run the demo again (must pass), remove the demo. Leave the worktree clean at the end (`git status --short` empty). Final message: for each mutant one line: file/function changed, what manifests it, and confirmation of the four runs (build ok, suite ok, demo fails with, demo passes without).""")
