#!/usr/bin/env python3
"""Re-run our checks on seeded mutants that were not caught by (any of) the properties they aim at; update meta.json."""
import glob, json, os, re, subprocess, sys
V = "/verif"
todo = []
for m in sorted(glob.glob(f"{V}/seeded/*/meta.json")):
    d = json.load(open(m))
    aimed = [p.strip() for p in (d.get("property") or "").split(",") if re.match(r"C\d\d$", p.strip())]
    det = d.get("our_checks", {})
    if aimed and not any(det.get(p, {}).get("exit") == 1 for p in aimed):
        todo.append((m, aimed))
print(len(todo), "mutants to re-check")
for m, aimed in todo:
    name = os.path.basename(os.path.dirname(m))
    out = subprocess.run([f"{V}/tools/mutcheck.sh", os.path.join(os.path.dirname(m), "patch.diff")] + aimed, capture_output=True, text=True).stdout
    d = json.load(open(m))
    for p in aimed:
        mm = re.search(rf"^{p} exit=(\d+)", out, re.M)
        d.setdefault("our_checks", {})[p] = dict(exit=int(mm.group(1)) if mm else None,
            violation_lines=[l for l in out.splitlines() if l.startswith("VIOLATION") and f"property={p}" in l][:3])
    json.dump(d, open(m, "w"), indent=1)
    print(name, {p: d["our_checks"][p]["exit"] for p in aimed}, flush=True)
